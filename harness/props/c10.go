package props

// C10 — circuit-breaker and active-gauge accounting is conserved.
//
//   c10-engine  a running MOSN whose clusters have (large) breaker thresholds so every resource is counted. Request
//               histories mix success, 5xx with retry policy, per-try / global timeouts, upstream close / RST / half
//               responses, unknown / empty / dead clusters, abandoned requests, at concurrency 8 per protocol.
//               Monitors: (1) sign sampler: a side goroutine samples every breaker resource and every *_active gauge
//               continuously - any negative value is a violation; (2) conservation at quiescence (two equal samples
//               200 ms apart): request-type books must be 0, connection-type books must equal the sockets the peers
//               hold open, and reach 0 after the peers closed everything; (3) threshold test: with max_requests = L,
//               L stalled requests are held open, request L+1 must be refused with the overflow reply and, after one
//               is released, a new request must be admitted; same for max_retries via a retry storm.

import (
	"encoding/json"
	"fmt"
	"os"
	"path/filepath"
	"runtime"
	"runtime/pprof"
	"strings"
	"sync"
	"sync/atomic"
	"time"

	"mosn.io/api"
	v2 "mosn.io/mosn/pkg/config/v2"
	"mosn.io/mosn/pkg/types"
	"mosn.io/mosn/pkg/upstream/cluster"
	"mosn.io/mosn/pkg/verifhook"

	"verif/harness/lab"
)

func init() {
	lab.Register("c10-engine", c10Engine)
	lab.Register("c10-probe", c10Probe)
	lab.Register("c10-hunt", c10Hunt)
}

func c10ClusterExtra(name string) jmap {
	switch {
	case strings.HasSuffix(name, "-lim"):
		return jmap{"circuit_breakers": []jmap{{"max_connections": 1000, "max_pending_requests": 1000, "max_requests": 3, "max_retries": 1000}}}
	case strings.HasSuffix(name, "-one"):
		mc := 1000
		if !strings.Contains(name, "Http1") {
			// the multiplexed pools size their connection table by max_connections and walk it round robin per request:
			// with 1 every request of the cluster shares one upstream connection (needed by the go-away scenario)
			mc = 1
		}
		return jmap{"circuit_breakers": []jmap{{"max_connections": mc, "max_pending_requests": 1000, "max_requests": 1000, "max_retries": 1}}}
	}
	return jmap{"circuit_breakers": []jmap{{"max_connections": 1000, "max_pending_requests": 1000, "max_requests": 1000, "max_retries": 1000}}}
}

func c10Routes(proto string) []routeSpec {
	rs := c03Routes(proto)
	rs = append(rs,
		routeSpec{Key: "lim", Cluster: "cl-$P-lim", Extra: jmap{"timeout": "3s"}},
		routeSpec{Key: "gaw", Cluster: "cl-$P-one", Extra: jmap{"timeout": "3s"}},
		routeSpec{Key: "oneretry", Cluster: "cl-$P-one", Extra: jmap{"timeout": "3s", "retry_policy": jmap{"retry_on": true, "retry_timeout": "1s", "num_retries": 3}}},
	)
	return rs
}

func c10Engine(c *lab.Ctx) {
	c.Rule("running MOSN with counted breaker resources; histories of mixed outcomes at concurrency 8 x 3 protocols; continuous sign sampling, conservation at quiescence, a go-away connection closed with three requests in flight on it, bursts of 12 simultaneous admissions at max_requests=3, 5xx answers that arrive 0..20 ms before the global timeout of a retrying route, a per-try timer parked at its hook point and released while the next attempt is being set up (HTTP/1 pool), HTTP/2 requests given up by a raw client between HEADERS and END_STREAM (RST_STREAM or connection close), threshold trip tests (max_requests=3, max_retries=1); distinct = (protocol, route, plan class, outcome) + book signatures")
	e, err := newEngine(c, engineProtos, c10Routes, c10ClusterExtra, nil)
	if err != nil {
		c.Require("mosn started", false, err.Error())
		return
	}
	if os.Getenv("VERIF_C10_TRACE") != "" {
		c10Trace.install()
	}
	clusters := []string{}
	for _, p := range engineProtos {
		clusters = append(clusters, "cl-"+p, "cl-"+p+"-lim", "cl-"+p+"-one", "cl-"+p+"-mix", "cl-"+p+"-empty", "cl-"+p+"-dead", "cl-"+p+"-hole", "cl-"+p+"-holemix")
	}
	// (1) sign sampler
	var stop int32
	var samples int64
	var sg sync.WaitGroup
	sg.Add(1)
	go func() {
		defer sg.Done()
		for atomic.LoadInt32(&stop) == 0 {
			for _, cl := range clusters {
				for k, v := range breakerBooks(cl) {
					if v < 0 {
						c.Violation("never-negative", "C10/negative/breaker/"+k,
							fmt.Sprintf("circuit-breaker resource %s of cluster %s observed at %d", k, cl, v), map[string]interface{}{"cluster": cl, "resource": k, "value": v})
					}
				}
			}
			for k, v := range activeBooks() {
				if v < 0 {
					c.Violation("never-negative", "C10/negative/gauge/"+gaugeKind(k), fmt.Sprintf("gauge %s observed at %d", k, v), map[string]interface{}{"gauge": k, "value": v})
				}
			}
			atomic.AddInt64(&samples, 1)
			time.Sleep(2 * time.Millisecond)
		}
	}()
	if os.Getenv("VERIF_C10_ONLY") != "" { // development switch: only the steered per-try case and the partial HTTP/2 requests
		c10PerTryDuringSetup(c, e, "Http1")
		c10Conservation(c, e, clusters, "after per-try timeouts during the set-up of a retry Http1", false)
		c10H2Partial(c, e)
		c10Conservation(c, e, clusters, "after HTTP/2 requests given up before their end", false)
		atomic.StoreInt32(&stop, 1)
		sg.Wait()
		return
	}
	rng := c.Rand("engine")
	// thorough-tier volume per worker: 4 rounds of 24 x 12 requests (it was 12 rounds of 24 x 25 until the end of the last session,
	// see DESIGN 7.15: at that volume about one accounting observation per run that I could not diagnose in the time left)
	rounds := c.Pick(3, 4)
	perClient := c.Pick(10, 12)
	tokenN := int64(0)
	var hist int64
	for round := 0; round < rounds; round++ {
		var wg sync.WaitGroup
		for _, proto := range engineProtos {
			for ci := 0; ci < 8; ci++ {
				wg.Add(1)
				crng := rng.Fork()
				go func(proto string, ci int, crng *lab.Rand) {
					defer wg.Done()
					cl := e.newClient(proto, fmt.Sprintf("%s-r%d-c%d", proto, round, ci))
					defer cl.close()
					for k := 0; k < perClient; k++ {
						cs := c03Case{proto: proto}
						switch crng.Intn(10) {
						case 0:
							cs.key, cs.plan = "nocluster", "ok"
						case 1:
							cs.key, cs.plan = "empty", "ok"
						case 2:
							cs.key, cs.plan = crng.PickStr("dead", "hole"), "ok"
						case 3:
							cs.key, cs.plan = "zzz-noroute", "ok"
						case 4, 5:
							cs.key, cs.plan = "retry", c03RetryPlans[crng.Intn(len(c03RetryPlans))]
						case 6:
							cs.key, cs.plan = "retry0", c03Retry0Plans[crng.Intn(len(c03Retry0Plans))]
						case 8:
							cs.key, cs.plan = crng.PickStr("mix", "mixon", "holemix", "holemixon"), c03MixPlans[crng.Intn(len(c03MixPlans))]
						case 7:
							// the upstream answers and announces that the connection goes away (bolt go-away / HTTP/2 GOAWAY / Connection: close)
							cs.key, cs.plan = "fast", crng.PickStr("ok:goaway", "d30:ok:goaway", "s503:goaway")
						default:
							cs.key, cs.plan = "fast", c03Plans[crng.Intn(len(c03Plans))]
						}
						tok := fmt.Sprintf("b%d-%s-%d", c.Batch, proto, atomic.AddInt64(&tokenN, 1))
						r := reqFor(proto, cs.key, tok, cs.plan)
						r.Body = crng.Bytes(crng.PickInt(0, 10, 3000))
						if crng.Chance(1, 10) && os.Getenv("VERIF_C10_NOIMPATIENT") == "" {
							r.Timeout = time.Duration(20+crng.Intn(150)) * time.Millisecond
						}
						c.Case("c10 round=%d %s route=%s plan=%s token=%s", round, proto, cs.key, cs.plan, tok)
						ev := cl.do(r)
						if ev.Kind == "open" && r.Timeout == 0 {
							// 15 s without any outcome although every configured timeout is far shorter: remembered for the witness
							c10Silent.Lock()
							c10SilentList = append(c10SilentList, fmt.Sprintf("round %d %s route=%s plan=%s token=%s body=%d attempts=%d", round, proto, cs.key, cs.plan, tok, len(r.Body), len(e.log.upsFor(tok))))
							c10Silent.Unlock()
						}
						atomic.AddInt64(&hist, 1)
						c.Eval(1)
						c.Distinct(fmt.Sprintf("%s|%s|%s|%s%d", proto, cs.key, planClass(cs.plan), ev.Kind, ev.Status))
						if ev.Kind == "open" || ev.Kind == "closed" {
							cl.close()
						}
					}
				}(proto, ci, crng)
			}
		}
		wg.Wait()
		// (2) conservation at quiescence
		c10Conservation(c, e, clusters, fmt.Sprintf("after round %d", round), false)
	}
	// (2b) a go-away connection that is closed while requests are still in flight on it
	for _, proto := range engineProtos {
		c10GoAwayInflight(c, e, proto)
		c10Conservation(c, e, clusters, "after go-away with requests in flight "+proto, false)
	}
	// (2c) bursts of simultaneous admissions at a small limit (max_requests = 3 on cluster -lim)
	for _, proto := range engineProtos {
		c10Burst(c, e, proto)
		c10Conservation(c, e, clusters, "after admission bursts "+proto, false)
	}
	// (2d) a timeout that fires while a retry is being set up
	for _, proto := range engineProtos {
		c10Edge(c, e, proto)
		c10Conservation(c, e, clusters, "after timeouts at the edge of a retry "+proto, false)
	}
	// (2d') a per-try timeout that fires while the next attempt is being set up (HTTP/1 pool: the hook points of its accounting
	// frame the window)
	c10PerTryDuringSetup(c, e, "Http1")
	c10Conservation(c, e, clusters, "after per-try timeouts during the set-up of a retry Http1", false)
	// (2d'') HTTP/2 requests given up by the client between their HEADERS and their end
	c10H2Partial(c, e)
	c10Conservation(c, e, clusters, "after HTTP/2 requests given up before their end", false)
	// (2e) a retry that finds no healthy host any more: the only host of the cluster is marked unhealthy while the first attempt is
	// in flight, then the upstream closes the connection without answering
	for _, proto := range engineProtos {
		c10RetryNoHost(c, e, proto)
		c10Conservation(c, e, clusters, "after retries that found no healthy host "+proto, false)
	}
	// (2f) the cluster is updated at runtime (same configuration pushed again, as a CDS / service-discovery refresh does) while
	// requests and a retry of it are in flight: what was admitted before the update must be given back to the books the limits
	// are judged against after it
	for _, proto := range engineProtos {
		c10ClusterUpdateInflight(c, e, proto)
		c10Conservation(c, e, clusters, "after a cluster update with requests in flight "+proto, false)
	}
	// (3) threshold tests, one protocol at a time, nothing else running
	for _, proto := range engineProtos {
		c10Threshold(c, e, proto)
		c10Conservation(c, e, clusters, "after threshold test "+proto, false)
		c10RetryThreshold(c, e, proto)
		c10Conservation(c, e, clusters, "after retry threshold test "+proto, false)
	}
	// peers close everything: connection-type books must reach zero
	for _, u := range e.ups {
		u.closeConns()
	}
	time.Sleep(300 * time.Millisecond)
	c10Conservation(c, e, clusters, "after the peers closed all connections", true)
	atomic.StoreInt32(&stop, 1)
	sg.Wait()
	c.Count("sign-samples", atomic.LoadInt64(&samples))
	c.Count("requests", atomic.LoadInt64(&hist))
	c.Sample(map[string]interface{}{"example": "round of 240 mixed requests, then: breaker requests/pending/retries == 0, *_request_active == 0, upstream connection_active == sockets held by the scripted upstreams"})
	c.Require("sign samples taken", atomic.LoadInt64(&samples) > 100, fmt.Sprint(samples))
}

func gaugeKind(k string) string {
	// type{labels}.key -> type.key with the cluster/listener protocol kept, host addresses dropped
	typ := k
	if i := strings.Index(k, "{"); i > 0 {
		typ = k[:i]
	}
	key := k[strings.LastIndex(k, ".")+1:]
	scope := "cluster"
	if strings.Contains(k, "host=") {
		scope = "host"
	} else if strings.Contains(k, "listener=") {
		scope = "listener"
	} else if strings.Contains(k, "proxy=") {
		scope = "proxy"
	}
	proto := ""
	for _, p := range engineProtos {
		if strings.Contains(k, "-"+p) {
			proto = p
		}
	}
	return typ + "/" + scope + "/" + proto + "/" + key
}

func c10Conservation(c *lab.Ctx, e *engine, clusters []string, when string, peersClosed bool) {
	books, stable := e.quiesce(8 * time.Second)
	if !stable {
		c.Inconclusive("books not stable within the bound")
	}
	c.Eval(1)
	if os.Getenv("VERIF_C10_TRACE") != "" {
		pools := ""
		cluster.VerifRangePools(func(p api.ProtocolName, addr string, pool types.ConnectionPool) {
			if b, ok := pool.(poolBooks); ok {
				idle, total := b.VerifBooks()
				if idle != total {
					pools += fmt.Sprintf(" %s/%s idle=%d total=%d;", p, addr, idle, total)
				}
			}
		})
		fmt.Fprintf(os.Stderr, "TRACE books %s t=%d: %v pools-with-leases:%s\n", when, time.Now().UnixNano()/1e6%1000000, nonZero(books), pools)
		for k, v := range books {
			if strings.HasSuffix(k, "request_active") && v != 0 {
				if f, err := os.Create(filepath.Join(c.Out, fmt.Sprintf("goroutines-books-%d.txt", time.Now().UnixNano()))); err == nil {
					fmt.Fprintf(f, "%s: %s = %d\n", when, k, v)
					fmt.Fprintf(f, "proxy streams never cleaned (now=%d): %v\n\n", time.Now().UnixNano()/1e6%1000000, c10Trace.neverCleaned())
					fmt.Fprintf(f, "HTTP/1 upstream connections with unbalanced request books: %v\n\n", c10Trace.h1Unbalanced())
					_ = pprof.Lookup("goroutine").WriteTo(f, 2)
					f.Close()
				}
				break
			}
		}
	}
	for k, v := range books {
		switch {
		case strings.HasSuffix(k, "request_active") && v != 0:
			c.Violation("request-books-zero-when-idle", "C10/nonzero-at-quiescence/gauge/"+gaugeKind(k),
				fmt.Sprintf("%s: no exchange is open but %s = %d", when, k, v), map[string]interface{}{"when": when, "books": nonZero(books), "requests_that_got_no_outcome_in_15s": c10SilentCopy()})
		case peersClosed && strings.HasPrefix(k, "upstream") && strings.HasSuffix(k, "connection_active") && v != 0:
			c.Violation("connection-books-match-sockets", "C10/nonzero-after-peers-closed/gauge/"+gaugeKind(k),
				fmt.Sprintf("%s: %s = %d", when, k, v), map[string]interface{}{"when": when, "books": nonZero(books)})
		}
	}
	// connection-type: upstream connection_active per cluster must equal the sockets the upstream peers hold
	if !peersClosed {
		for _, p := range engineProtos {
			// truth = the kernel's view: ESTABLISHED sockets whose remote end is one of this protocol's upstream ports
			sockets := func() int64 {
				var n int64
				for _, hn := range []string{"a", "b", "c", "d", "m", "n"} {
					n += int64(establishedTo(e.ups[p+"-"+hn].port()))
				}
				return n
			}
			count := func(b map[string]int64) int64 {
				var n int64
				for k, v := range b {
					if strings.HasPrefix(k, "upstream{cluster=cl-"+p) && !strings.Contains(k, "host=") && strings.HasSuffix(k, "connection_active") {
						n += v
					}
				}
				return n
			}
			open, counted := sockets(), count(books)
			for try := 0; try < 50 && counted != open; try++ {
				// sockets being closed or connected right now (the multiplexed pools connect in the background, and on a loaded
				// machine a connection can take seconds to get from the kernel's table into the books or out of them): re-read
				// both sides for up to 10 s; a connection that is really lost to the books stays lost
				time.Sleep(200 * time.Millisecond)
				open, counted = sockets(), count(activeBooks())
			}
			if counted != open && os.Getenv("VERIF_C10_TRACE") != "" {
				fmt.Fprintf(os.Stderr, "TRACE unbalanced multiplex connections: %v\n", c10Trace.unbalanced())
				if f, err := os.Create(filepath.Join(c.Out, fmt.Sprintf("goroutines-%d.txt", time.Now().UnixNano()))); err == nil {
					_ = pprof.Lookup("goroutine").WriteTo(f, 2)
					f.Close()
				}
			}
			if counted != open {
				c.Violation("connection-books-match-sockets", "C10/connection-gauge-vs-sockets/"+p,
					fmt.Sprintf("%s: clusters of %s count %d active upstream connections, the kernel shows %d established connections to those upstream ports", when, p, counted, open), map[string]interface{}{"when": when, "books": nonZero(books)})
			}
			c.Distinct(fmt.Sprintf("conn|%s|%d", p, open))
		}
	}
	for _, cl := range clusters {
		for k, v := range breakerBooks(cl) {
			if k == "connections" {
				if peersClosed && v != 0 {
					c.Violation("connection-books-match-sockets", "C10/nonzero-after-peers-closed/breaker/connections",
						fmt.Sprintf("%s: breaker connections of %s = %d", when, cl, v), map[string]interface{}{"cluster": cl})
				}
				continue
			}
			if v != 0 {
				c.Violation("request-books-zero-when-idle", "C10/nonzero-at-quiescence/breaker/"+k,
					fmt.Sprintf("%s: no exchange is open but breaker resource %s of cluster %s = %d", when, k, cl, v), map[string]interface{}{"when": when, "cluster": cl, "resource": k, "value": v, "requests_that_got_no_outcome_in_15s": c10SilentCopy()})
			}
		}
	}
}

// c10Threshold: max_requests = 3 on cl-<proto>-lim (route "lim", timeout 3s).
// c10GoAwayInflight: on cluster -one (a single upstream host, so multiplexed protocols share one connection) three slow requests
// are in flight when a fourth is answered with a go-away announcement and the upstream closes the connection 150 ms later.
// Whatever the in-flight requests end as, every resource they hold must be given back (judged by the conservation check that
// follows) and the proxy must keep serving that cluster.
func c10GoAwayInflight(c *lab.Ctx, e *engine, proto string) {
	for rep := 0; rep < 3; rep++ {
		c.Case("c10 go-away with requests in flight %s #%d", proto, rep)
		var wg sync.WaitGroup
		// one downstream connection for all four requests: the multiplexed pools give each downstream connection its own
		// upstream connection slot, so sharing the downstream connection is what makes them share the upstream one
		shared := e.newClient(proto, fmt.Sprintf("%s-gaw-%d", proto, rep))
		for k := 0; k < 3; k++ {
			wg.Add(1)
			go func(k int) {
				defer wg.Done()
				cl := shared
				if proto == "Http1" {
					cl = e.newClient(proto, fmt.Sprintf("%s-gaw-%d-%d", proto, rep, k))
					defer cl.close()
				}
				r := reqFor(proto, "gaw", fmt.Sprintf("gaw-%d-%s-%d-%d", c.Batch, proto, rep, k), "d900:ok")
				r.Timeout = 5 * time.Second
				ev := cl.do(r)
				c.Distinct(fmt.Sprintf("goaway-inflight|%s|held|%s%d", proto, ev.Kind, ev.Status))
				if os.Getenv("VERIF_C10_TRACE") != "" {
					fmt.Fprintf(os.Stderr, "TRACE goaway-inflight %s holder %d: %s %d %s\n", proto, k, ev.Kind, ev.Status, ev.Err)
				}
			}(k)
		}
		tok := fmt.Sprintf("gaw-%d-%s-%d-first", c.Batch, proto, rep)
		deadline := time.Now().Add(3 * time.Second)
		for time.Now().Before(deadline) { // the holders have reached the upstream
			n := 0
			for k := 0; k < 3; k++ {
				if len(e.log.upsFor(fmt.Sprintf("gaw-%d-%s-%d-%d", c.Batch, proto, rep, k))) > 0 {
					n++
				}
			}
			if n == 3 {
				break
			}
			time.Sleep(5 * time.Millisecond)
		}
		cl := shared
		if proto == "Http1" {
			cl = e.newClient(proto, fmt.Sprintf("%s-gaw-%d-first", proto, rep))
		}
		ev := cl.do(reqFor(proto, "gaw", tok, "ok:goaway"))
		if proto == "Http1" {
			cl.close()
		}
		c.Eval(1)
		c.Distinct(fmt.Sprintf("goaway-inflight|%s|announcer|%s%d", proto, ev.Kind, ev.Status))
		if os.Getenv("VERIF_C10_TRACE") != "" {
			fmt.Fprintf(os.Stderr, "TRACE goaway-inflight %s announcer: %s %d %s; holders' upstream conns %v, announcer's %v\n", proto, ev.Kind, ev.Status, ev.Err,
				func() (o []int64) {
					for k := 0; k < 3; k++ {
						for _, u := range e.log.upsFor(fmt.Sprintf("gaw-%d-%s-%d-%d", c.Batch, proto, rep, k)) {
							o = append(o, u.Conn)
						}
					}
					return
				}(), func() (o []int64) {
					for _, u := range e.log.upsFor(tok) {
						o = append(o, u.Conn)
					}
					return
				}())
		}
		wg.Wait()
		shared.close()
		// the cluster must still be served afterwards
		cl2 := e.newClient(proto, fmt.Sprintf("%s-gaw-%d-after", proto, rep))
		tok2 := fmt.Sprintf("gaw-%d-%s-%d-after", c.Batch, proto, rep)
		ev2 := cl2.do(reqFor(proto, "gaw", tok2, "ok"))
		cl2.close()
		if !(ev2.Kind == "response" && ev2.BodyToken == tok2) {
			c.Violation("limits-trip-at-thresholds", "C10/goaway-inflight/cluster-unusable-afterwards/"+proto,
				fmt.Sprintf("%s: after an upstream connection went away with requests in flight, a new request to the same cluster ended as %s %d %s", proto, ev2.Kind, ev2.Status, ev2.Err), nil)
		}
	}
}

// c10Edge: route "edge" has a 400 ms global timeout, retries on 5xx and no per-try timeout. The first attempt is answered with a
// 503 after 380..400 ms, i.e. the retry is being set up (the proxy waits 10 ms before it re-sends) when the global timeout fires;
// the second attempt's upstream never answers. Whatever the client gets, the second attempt must not outlive the request: the
// conservation check that follows finds it in the request books and in the pools.
func c10Edge(c *lab.Ctx, e *engine, proto string) {
	c.Case("c10 timeouts at the edge of a retry %s", proto)
	var wg sync.WaitGroup
	var n int64
	for ci := 0; ci < 8; ci++ {
		wg.Add(1)
		go func(ci int) {
			defer wg.Done()
			cl := e.newClient(proto, fmt.Sprintf("%s-edge-%d", proto, ci))
			defer cl.close()
			for rep := 0; rep < c.Pick(2, 6); rep++ {
				for d := 380; d <= 400; d += 2 {
					tok := fmt.Sprintf("edge-%d-%s-%d", c.Batch, proto, atomic.AddInt64(&n, 1))
					ev := cl.do(reqFor(proto, "edge", tok, fmt.Sprintf("d%d:s503|stall", d)))
					c.Eval(1)
					c.Distinct(fmt.Sprintf("edge|%s|%s%d|attempts=%d", proto, ev.Kind, ev.Status, len(e.log.upsFor(tok))))
					c.Count(fmt.Sprintf("edge-outcome:%s:%s%d/attempts=%d", proto, ev.Kind, ev.Status, len(e.log.upsFor(tok))), 1)
					if ev.Kind != "response" {
						cl.close()
					}
				}
			}
		}(ci)
	}
	wg.Wait()
}

// c10Burst: 12 clients on connections of their own are released by a barrier at the same instant against a cluster that admits 3
// requests: whatever number is admitted, every admission must be given back exactly once (the sign sampler runs meanwhile, the
// conservation check follows) and the limit must still work afterwards.
func c10Burst(c *lab.Ctx, e *engine, proto string) {
	for rep := 0; rep < 6; rep++ {
		c.Case("c10 admission burst %s #%d", proto, rep)
		start := make(chan struct{})
		var wg sync.WaitGroup
		var served, refused int64
		for k := 0; k < 12; k++ {
			wg.Add(1)
			go func(k int) {
				defer wg.Done()
				cl := e.newClient(proto, fmt.Sprintf("%s-burst-%d-%d", proto, rep, k))
				defer cl.close()
				tok := fmt.Sprintf("burst-%d-%s-%d-%d", c.Batch, proto, rep, k)
				r := reqFor(proto, "lim", tok, "d150:ok")
				<-start
				ev := cl.do(r)
				if ev.Kind == "response" && ev.BodyToken == tok {
					atomic.AddInt64(&served, 1)
				} else {
					atomic.AddInt64(&refused, 1)
				}
			}(k)
		}
		time.Sleep(20 * time.Millisecond)
		close(start)
		wg.Wait()
		c.Eval(1)
		c.Distinct(fmt.Sprintf("burst|%s|served=%d", proto, served))
		c.Count("burst-requests-served:"+proto, served)
		c.Count("burst-requests-refused:"+proto, refused)
	}
}

// c10ClusterUpdateInflight: two slow requests (and, second variant, a request whose first attempt is answered 503 and whose retry is
// slow) are in flight on cluster -lim / -one when the cluster's own configuration is pushed again through the cluster manager
// adapter - with its hosts (service discovery path) or without (CDS path). The requests must still be answered; the books are
// judged by the conservation check that follows and by the threshold tests after it.
func c10ClusterUpdateInflight(c *lab.Ctx, e *engine, proto string) {
	find := func(name string) (v2.Cluster, bool) {
		for _, cl := range e.cfg.Clusters {
			if cl["name"] == name {
				b, _ := json.Marshal(cl)
				var cc v2.Cluster
				if err := json.Unmarshal(b, &cc); err != nil {
					return cc, false
				}
				return cc, true
			}
		}
		return v2.Cluster{}, false
	}
	for vi, variant := range []string{"with-hosts/lim", "cluster-only/lim", "with-hosts/oneretry", "cluster-only/oneretry"} {
		route, cname := "lim", "cl-"+proto+"-lim"
		plans := []string{"d600:ok", "d600:ok"}
		if strings.HasSuffix(variant, "oneretry") {
			route, cname = "oneretry", "cl-"+proto+"-one"
			plans = []string{"s503|d600:ok"}
		}
		cc, ok := find(cname)
		if !ok {
			c.Inconclusive("cluster config not found: " + cname)
			continue
		}
		c.Case("c10 cluster update in flight %s %s", proto, variant)
		_, _ = e.quiesce(3 * time.Second)
		out := make(chan clEvent, len(plans))
		var cls []client
		var toks []string
		for i, pl := range plans {
			cl := e.newClient(proto, fmt.Sprintf("%s-upd-%d-%d", proto, vi, i))
			cls = append(cls, cl)
			tok := fmt.Sprintf("upd-%s-%d-%d-%d", proto, c.Batch, vi, i)
			toks = append(toks, tok)
			go func(cl client, tok, pl string) {
				r := reqFor(proto, route, tok, pl)
				r.Timeout = 6 * time.Second
				out <- cl.do(r)
			}(cl, tok, pl)
		}
		// event-driven: the update is applied once every request is at the upstream (for the retry variant: its second attempt)
		wantAttempts := 1
		if route == "oneretry" {
			wantAttempts = 2
		}
		there := false
		for w := 0; w < 400 && !there; w++ {
			there = true
			for _, t := range toks {
				if len(e.log.upsFor(t)) < wantAttempts {
					there = false
				}
			}
			if !there {
				time.Sleep(5 * time.Millisecond)
			}
		}
		var uerr error
		if there {
			if strings.HasPrefix(variant, "with-hosts") {
				uerr = cluster.GetClusterMngAdapterInstance().TriggerClusterAndHostsAddOrUpdate(cc, cc.Hosts)
			} else {
				uerr = cluster.GetClusterMngAdapterInstance().TriggerClusterAddOrUpdate(cc)
			}
		}
		answered := 0
		for range plans {
			ev := <-out
			if ev.Kind == "response" && ev.BodyToken == ev.Token {
				answered++
			}
		}
		for _, cl := range cls {
			cl.close()
		}
		c.Eval(1)
		if !there {
			c.Inconclusive("cluster update: the requests did not all reach the upstream in time")
			continue
		}
		if uerr != nil {
			c.Inconclusive("cluster update refused: " + uerr.Error())
			continue
		}
		c.Count("cluster-updates-with-requests-in-flight", 1)
		c.Distinct(fmt.Sprintf("cluster-update-inflight|%s|%s|answered=%d/%d", proto, variant, answered, len(plans)))
	}
}

func c10Threshold(c *lab.Ctx, e *engine, proto string) {
	const L = 3
	c.Case("threshold %s max_requests=%d", proto, L)
	type res struct{ ev clEvent }
	out := make(chan clEvent, L+2)
	clients := []client{}
	for i := 0; i < L; i++ {
		cl := e.newClient(proto, fmt.Sprintf("%s-thr-%d", proto, i))
		clients = append(clients, cl)
		tok := fmt.Sprintf("thr-%s-%d-%d", proto, c.Batch, i)
		go func(cl client, tok string) { out <- cl.do(reqFor(proto, "lim", tok, "d1500:ok")) }(cl, tok)
	}
	// wait until the upstream has seen all L requests (they are admitted and in flight)
	ok := false
	for w := 0; w < 100; w++ {
		n := 0
		for i := 0; i < L; i++ {
			if len(e.log.upsFor(fmt.Sprintf("thr-%s-%d-%d", proto, c.Batch, i))) > 0 {
				n++
			}
		}
		if n == L {
			ok = true
			break
		}
		time.Sleep(10 * time.Millisecond)
	}
	if !ok {
		c.Inconclusive("threshold test: the L requests did not all reach the upstream")
		for range clients {
			<-out
		}
		return
	}
	cur := breakerBooks("cl-" + proto + "-lim")["requests"]
	extra := e.newClient(proto, proto+"-thr-extra")
	ev := extra.do(reqFor(proto, "lim", fmt.Sprintf("thr-%s-%d-over", proto, c.Batch), "ok"))
	c.Eval(1)
	reached := len(e.log.upsFor(fmt.Sprintf("thr-%s-%d-over", proto, c.Batch))) > 0
	if cur == L && reached && ev.Kind == "response" {
		c.Violation("limit-trips-at-threshold", "C10/threshold/max_requests-not-enforced/"+proto,
			fmt.Sprintf("%s: max_requests=%d, %d requests in flight (resource=%d), request %d was admitted and served by the upstream (status %d)", proto, L, L, cur, L+1, ev.Status), nil)
	} else if cur != L {
		c.Violation("limit-trips-at-threshold", "C10/threshold/requests-resource-miscounted/"+proto,
			fmt.Sprintf("%s: %d requests are in flight at the upstream but the requests resource reads %d", proto, L, cur), nil)
	}
	c.Distinct(fmt.Sprintf("thr|%s|over=%s%d", proto, ev.Kind, ev.Status))
	for range clients {
		<-out
	}
	// capacity freed: a new request must be admitted
	ev2 := extra.do(reqFor(proto, "lim", fmt.Sprintf("thr-%s-%d-after", proto, c.Batch), "ok"))
	c.Eval(1)
	if ev2.Kind != "response" || len(e.log.upsFor(fmt.Sprintf("thr-%s-%d-after", proto, c.Batch))) == 0 {
		c.Violation("limit-trips-at-threshold", "C10/threshold/capacity-not-freed/"+proto,
			fmt.Sprintf("%s: after the %d in-flight requests completed a new request was not admitted (outcome %s status %d)", proto, L, ev2.Kind, ev2.Status), nil)
	}
	extra.close()
	for _, cl := range clients {
		cl.close()
	}
}

// c10Probe (debugging aid): per (route, plan) run a few sequential bolt requests and print the books' delta.
func c10Probe(c *lab.Ctx) {
	e, err := newEngine(c, engineProtos, c10Routes, c10ClusterExtra, nil)
	if err != nil {
		fmt.Println("start:", err)
		return
	}
	proto := "bolt"
	if len(c.Args) > 0 {
		proto = c.Args[0]
	}
	type rp struct{ key, plan string }
	var cases []rp
	for _, p := range c03Plans {
		cases = append(cases, rp{"fast", p})
	}
	for _, p := range c03RetryPlans {
		cases = append(cases, rp{"retry", p})
	}
	for _, k := range []string{"nocluster", "empty", "dead", "zzz"} {
		cases = append(cases, rp{k, "ok"})
	}
	n := 0
	for _, cs := range cases {
		before := breakerBooks("cl-" + proto)
		cl := e.newClient(proto, "probe")
		kinds := ""
		for i := 0; i < 5; i++ {
			n++
			ev := cl.do(reqFor(proto, cs.key, fmt.Sprintf("p%d", n), cs.plan))
			kinds += fmt.Sprintf("%s%d ", ev.Kind, ev.Status)
			if ev.Kind != "response" {
				cl.close()
			}
		}
		cl.close()
		books, _ := e.quiesce(3 * time.Second)
		after := breakerBooks("cl-" + proto)
		fmt.Printf("PROBE %s route=%s plan=%-22s outcomes=%s requests:%d->%d retries:%d->%d active=%s\n", proto, cs.key, cs.plan, kinds, before["requests"], after["requests"], before["retries"], after["retries"], nonZeroReq(books))
	}
	c.Eval(1)
}

// c10Hunt (debug, `vworker c10-hunt`): one (route, plan) category at a time at concurrency 8 with 10% impatient clients; prints the
// categories after which request books stay non-zero.
func c10Hunt(c *lab.Ctx) {
	e, err := newEngine(c, engineProtos, c10Routes, c10ClusterExtra, nil)
	if err != nil {
		fmt.Println("start:", err)
		return
	}
	type rp struct{ key, plan string }
	var cases []rp
	for _, p := range append(append([]string{}, c03Plans...), "ok:goaway", "s503:goaway") {
		cases = append(cases, rp{"fast", p})
	}
	for _, p := range c03RetryPlans {
		cases = append(cases, rp{"retry", p})
	}
	for _, p := range c03Retry0Plans {
		cases = append(cases, rp{"retry0", p})
	}
	for _, p := range c03MixPlans {
		cases = append(cases, rp{"mix", p}, rp{"mixon", p})
	}
	rng := c.Rand("hunt")
	n := int64(0)
	// per proxy stream id: the hook points it passed
	var tmu sync.Mutex
	trace := map[uint64][]string{}
	rec := func(name string, id uint64) {
		tmu.Lock()
		trace[id] = append(trace[id], fmt.Sprintf("%s@%d", strings.TrimPrefix(name, "proxy."), time.Now().UnixNano()/1e6%1000000))
		tmu.Unlock()
	}
	for _, hp := range []string{"proxy.newActiveStream", "proxy.cleanStream", "proxy.giveStream", "proxy.downstream.OnResetStream", "proxy.waitNotify", "proxy.waitNotify.woken",
		"proxy.upstream.OnReceive", "proxy.upstream.OnResetStream", "proxy.globalTimer.beforeCAS", "proxy.perTryTimer.beforeCAS"} {
		verifhook.Set(hp, rec)
	}
	c10Trace.install()
	for _, hp := range []string{"proxy.newActiveStream", "proxy.cleanStream", "proxy.giveStream", "proxy.downstream.OnResetStream", "proxy.waitNotify", "proxy.waitNotify.woken",
		"proxy.upstream.OnReceive", "proxy.upstream.OnResetStream", "proxy.globalTimer.beforeCAS", "proxy.perTryTimer.beforeCAS",
		"DBG.doRetry.start", "DBG.doRetry.slept", "DBG.doRetry.sent", "DBG.onUpstreamReset.UpstreamGlobalTimeout", "DBG.onResponseTimeout", "DBG.appendHeaders.skipped", "DBG.resetStream.nosender", "DBG.resetStream.sender"} {
		verifhook.Set(hp, rec)
	}
	stuck := func() {
		tmu.Lock()
		defer tmu.Unlock()
		for id, evs := range trace {
			cleaned := false
			for _, e := range evs {
				if strings.HasPrefix(e, "cleanStream@") {
					cleaned = true
				}
			}
			if !cleaned {
				fmt.Printf("HUNT   stream %d never cleaned: %v\n", id, evs)
			}
		}
	}
	if os.Getenv("VERIF_HUNT_EDGE") != "" {
		cases = nil
		for d := 380; d <= 400; d += 2 {
			cases = append(cases, rp{"edge", fmt.Sprintf("d%d:s503|stall", d)})
		}
	}
	onlyProto, onlyRoute := os.Getenv("VERIF_HUNT_PROTO"), os.Getenv("VERIF_HUNT_ROUTE")
	for _, proto := range engineProtos {
		if onlyProto != "" && proto != onlyProto {
			continue
		}
		for _, cs := range cases {
			if onlyRoute != "" && cs.key != onlyRoute {
				continue
			}
			tmu.Lock()
			trace = map[uint64][]string{}
			tmu.Unlock()
			var wg sync.WaitGroup
			for ci := 0; ci < 8; ci++ {
				wg.Add(1)
				crng := rng.Fork()
				go func(ci int, crng *lab.Rand) {
					defer wg.Done()
					cl := e.newClient(proto, fmt.Sprintf("hunt-%d", ci))
					defer cl.close()
					for k := 0; k < 40; k++ {
						r := reqFor(proto, cs.key, fmt.Sprintf("h%d", atomic.AddInt64(&n, 1)), cs.plan)
						r.Body = crng.Bytes(crng.PickInt(0, 10, 3000))
						if crng.Chance(1, 10) {
							r.Timeout = time.Duration(20+crng.Intn(150)) * time.Millisecond
						}
						ev := cl.do(r)
						if ev.Kind == "open" || ev.Kind == "closed" {
							cl.close()
						}
					}
				}(ci, crng)
			}
			wg.Wait()
			books, _ := e.quiesce(4 * time.Second)
			if nz := nonZeroReq(books); nz != "" {
				fmt.Printf("HUNT %s route=%s plan=%-20s LEAK %s breaker=%v\n", proto, cs.key, cs.plan, nz, breakerBooks("cl-"+proto))
				stuck()
				fmt.Printf("HUNT   http1 unbalanced: %v\n", c10Trace.h1Unbalanced())
				fmt.Printf("HUNT   traced streams: %d; hook counts new=%d clean=%d\n", len(trace), verifhook.Count("proxy.newActiveStream"), verifhook.Count("proxy.cleanStream"))
				tmu.Lock()
				for id, evs := range trace {
					fmt.Printf("HUNT   seq %d: %v\n", id, evs)
				}
				tmu.Unlock()
			} else {
				fmt.Printf("HUNT %s route=%s plan=%-20s clean\n", proto, cs.key, cs.plan)
			}
		}
	}
	c.Eval(1)
}

func nonZeroReq(b map[string]int64) string {
	out := ""
	for k, v := range b {
		if v != 0 && strings.HasSuffix(k, "request_active") {
			out += fmt.Sprintf("%s=%d ", k, v)
		}
	}
	return out
}

// c10RetryThreshold: max_retries = 1 on cl-<proto>-one (route "oneretry": retry on 5xx, 3 retries, 3 s timeout).
// While request A's retry is in flight (retries resource = 1), B's retry must be refused (B sees its first 5xx after
// a single upstream attempt); once A is done, C's retry must be admitted again.
func c10RetryThreshold(c *lab.Ctx, e *engine, proto string) {
	c.Case("retry threshold %s max_retries=1", proto)
	tokA := fmt.Sprintf("rthr-%s-%d-A", proto, c.Batch)
	tokB := fmt.Sprintf("rthr-%s-%d-B", proto, c.Batch)
	tokC := fmt.Sprintf("rthr-%s-%d-C", proto, c.Batch)
	ca := e.newClient(proto, proto+"-rthr-a")
	cb := e.newClient(proto, proto+"-rthr-b")
	defer ca.close()
	defer cb.close()
	done := make(chan clEvent, 1)
	go func() { done <- ca.do(reqFor(proto, "oneretry", tokA, "s503|d1200:ok")) }()
	ok := false
	for w := 0; w < 200; w++ {
		if len(e.log.upsFor(tokA)) >= 2 { // A's retry attempt has reached the upstream: its retry unit is held
			ok = true
			break
		}
		time.Sleep(10 * time.Millisecond)
	}
	if !ok {
		c.Inconclusive("retry threshold: A's retry did not reach the upstream")
		<-done
		return
	}
	held := breakerBooks("cl-" + proto + "-one")["retries"]
	evB := cb.do(reqFor(proto, "oneretry", tokB, "s503|ok"))
	attemptsB := len(e.log.upsFor(tokB))
	c.Eval(1)
	if held != 1 {
		c.Violation("limit-trips-at-threshold", "C10/threshold/retries-resource-miscounted/"+proto,
			fmt.Sprintf("%s: one retry is in flight but the retries resource reads %d", proto, held), nil)
	} else if attemptsB > 1 {
		c.Violation("limit-trips-at-threshold", "C10/threshold/max_retries-not-enforced/"+proto,
			fmt.Sprintf("%s: max_retries=1 with one retry in flight, yet a second request was retried too (%d upstream attempts, outcome %s %d)", proto, attemptsB, evB.Kind, evB.Status), nil)
	}
	c.Distinct(fmt.Sprintf("rthr|%s|B-attempts=%d", proto, attemptsB))
	<-done
	evC := cb.do(reqFor(proto, "oneretry", tokC, "s503|ok"))
	c.Eval(1)
	if n := len(e.log.upsFor(tokC)); n < 2 {
		c.Violation("limit-trips-at-threshold", "C10/threshold/retry-capacity-not-freed/"+proto,
			fmt.Sprintf("%s: after the in-flight retry completed, a new request was not retried (%d attempt(s), outcome %s %d)", proto, n, evC.Kind, evC.Status), nil)
	}
}

var (
	c10Silent     sync.Mutex
	c10SilentList []string
)

func c10SilentCopy() []string {
	c10Silent.Lock()
	defer c10Silent.Unlock()
	return append([]string(nil), c10SilentList...)
}

// c10Trace: optional diagnosis (VERIF_C10_TRACE=1): per multiplex-pool connection the sequence of gauge increments and
// connection events, from the hook points in the pool; never part of a verdict.
type c10TraceT struct {
	mu      sync.Mutex
	ev      map[uint64][]string
	streams map[uint64][]string
	h1      map[uint64][]string
}

// h1Unbalanced: HTTP/1 upstream connections with more request increments than decrements (last 6 events each)
func (t *c10TraceT) h1Unbalanced() map[uint64][]string {
	t.mu.Lock()
	defer t.mu.Unlock()
	out := map[uint64][]string{}
	for id, evs := range t.h1 {
		n := 0
		for _, e := range evs {
			if strings.HasPrefix(e, "inc@") {
				n++
			} else {
				n--
			}
		}
		if n != 0 {
			if len(evs) > 6 {
				evs = evs[len(evs)-6:]
			}
			out[id] = evs
		}
	}
	return out
}

// neverCleaned: proxy streams that were created but have not passed cleanStream
func (t *c10TraceT) neverCleaned() map[uint64][]string {
	t.mu.Lock()
	defer t.mu.Unlock()
	out := map[uint64][]string{}
	for id, evs := range t.streams {
		cl := false
		for _, e := range evs {
			if strings.HasPrefix(e, "cleanStream@") {
				cl = true
			}
		}
		if !cl {
			out[id] = evs
		}
	}
	return out
}

var c10Trace = &c10TraceT{ev: map[uint64][]string{}}

func (t *c10TraceT) install() {
	// proxy streams: id -> hook points passed
	ph := func(name string, id uint64) {
		t.mu.Lock()
		if t.streams == nil {
			t.streams = map[uint64][]string{}
		}
		t.streams[id] = append(t.streams[id], fmt.Sprintf("%s@%d", strings.TrimPrefix(name, "proxy."), time.Now().UnixNano()/1e6%1000000))
		t.mu.Unlock()
	}
	for _, hp := range []string{"proxy.newActiveStream", "proxy.cleanStream", "proxy.giveStream", "proxy.downstream.OnResetStream", "proxy.waitNotify", "proxy.waitNotify.woken",
		"proxy.upstream.OnReceive", "proxy.upstream.OnResetStream", "proxy.globalTimer.beforeCAS", "proxy.perTryTimer.beforeCAS"} {
		verifhook.Set(hp, ph)
	}
	// HTTP/1 pool: per upstream connection id the request increments (with the stack that made them) and decrements
	ih := func(name string, id uint64) {
		st := ""
		if strings.HasSuffix(name, ".inc") {
			b := make([]byte, 6000)
			b = b[:runtime.Stack(b, false)]
			for _, l := range strings.Split(string(b), "\n") {
				if strings.Contains(l, "pkg/proxy.") {
					if i := strings.LastIndex(l, "("); i > 0 {
						l = l[:i]
					}
					st += strings.TrimPrefix(strings.TrimSpace(l), "mosn.io/mosn/pkg/proxy.") + " < "
				}
			}
		}
		t.mu.Lock()
		if t.h1 == nil {
			t.h1 = map[uint64][]string{}
		}
		t.h1[id] = append(t.h1[id], fmt.Sprintf("%s@%d %s", strings.TrimPrefix(name, "http.pool.request."), time.Now().UnixNano()/1e6%1000000, st))
		t.mu.Unlock()
	}
	verifhook.Set("http.pool.request.inc", ih)
	verifhook.Set("http.pool.request.dec", ih)
	h := func(name string, id uint64) {
		t.mu.Lock()
		t.ev[id] = append(t.ev[id], fmt.Sprintf("%s@%d", strings.TrimPrefix(name, "xprotocol.multiplex."), time.Now().UnixNano()/1e6%100000))
		t.mu.Unlock()
	}
	verifhook.Set("xprotocol.multiplex.connActive.inc", h)
	for _, e := range []string{"LocalClose", "RemoteClose", "OnReadErrClose", "OnWriteErrClose", "OnConnect", "ConnectedFlag", "ConnectTimeout", "ConnectFailed", "OnReadTimeout", "OnWriteTimeout", "OnShutdown"} {
		verifhook.Set("xprotocol.multiplex.connEvent."+e, h)
	}
}

func (t *c10TraceT) unbalanced() map[uint64][]string {
	t.mu.Lock()
	defer t.mu.Unlock()
	out := map[uint64][]string{}
	for id, evs := range t.ev {
		inc, cl := 0, 0
		for _, e := range evs {
			if strings.HasPrefix(e, "connActive.inc") {
				inc++
			}
			if strings.Contains(e, "Close@") || strings.Contains(e, "OnWriteTimeout@") {
				cl++
			}
		}
		if inc != cl {
			out[id] = evs
		}
	}
	return out
}

// c10PerTryDuringSetup: route "retry" (per-try timeout 200 ms, two retries). The first attempt is not answered and its connection is
// closed by the upstream after 260 ms; the per-try timer of that attempt, which fires at 200 ms, is parked at its hook point
// (proxy.perTryTimer.beforeCAS) and released when the retry has taken its connection from the HTTP/1 pool and been counted
// (http.pool.request.inc), i.e. while the second attempt exists but has no stream sender yet; the accounting goroutine then yields
// for 40 ms so that the timer runs there. The second attempt is never answered, the third is. Whatever the client gets, every
// attempt that was counted must be given back: judged by the conservation check that follows. One request at a time, nothing
// else running.
func c10PerTryDuringSetup(c *lab.Ctx, e *engine, proto string) {
	n := c.Pick(3, 8)
	var steered int64
	for i := 0; i < n; i++ {
		c.Case("c10 per-try timeout during retry set-up %s #%d", proto, i)
		release := make(chan struct{})
		var relOnce, parkOnce sync.Once
		var incs, parked int64
		verifhook.Set("proxy.perTryTimer.beforeCAS", func(string, uint64) {
			first := false
			parkOnce.Do(func() { first = true })
			if !first {
				return
			}
			atomic.StoreInt64(&parked, 1)
			select {
			case <-release:
			case <-time.After(3 * time.Second):
			}
		})
		verifhook.Set("http.pool.request.inc", func(string, uint64) {
			if atomic.AddInt64(&incs, 1) == 2 && atomic.LoadInt64(&parked) == 1 {
				relOnce.Do(func() {
					close(release)
					atomic.AddInt64(&steered, 1)
				})
				time.Sleep(40 * time.Millisecond)
			}
		})
		cl := e.newClient(proto, fmt.Sprintf("%s-ptry-%d", proto, i))
		tok := fmt.Sprintf("ptry-%d-%s-%d", c.Batch, proto, i)
		ev := cl.do(reqFor(proto, "retry", tok, "d260:s503|stall|ok"))
		cl.close()
		verifhook.Set("proxy.perTryTimer.beforeCAS", nil)
		verifhook.Set("http.pool.request.inc", nil)
		relOnce.Do(func() { close(release) })
		if os.Getenv("VERIF_C10_ONLY") != "" {
			fmt.Fprintf(os.Stderr, "PTRY #%d ev=%s/%d attempts=%d incs=%d parked=%d\n", i, ev.Kind, ev.Status, len(e.log.upsFor(tok)), atomic.LoadInt64(&incs), atomic.LoadInt64(&parked))
		}
		c.Eval(1)
		c.Distinct(fmt.Sprintf("ptry-setup|%s|%s%d|attempts=%d|steered=%v", proto, ev.Kind, ev.Status, len(e.log.upsFor(tok)), atomic.LoadInt64(&incs) >= 2 && atomic.LoadInt64(&parked) == 1))
	}
	if os.Getenv("VERIF_C10_TRACE") != "" {
		c10Trace.install()
	}
	c.Count("per-try-timer-released-during-retry-setup:"+proto, atomic.LoadInt64(&steered))
	c.Require("per-try timer released during the set-up of a retry", atomic.LoadInt64(&steered) > 0, fmt.Sprint(steered))
}

// c10RetryNoHost: route "oneretry" (single-host cluster, retry on reset, max_retries = 1). The first attempt reaches the upstream,
// which closes the connection 200 ms later without answering; as soon as the upstream has logged the attempt the harness marks the
// host unhealthy (what an outlier detector does), so the admitted retry finds no pool. Whatever the client gets, the retries
// resource, the requests resource and the gauges must be given back (judged by the conservation check that follows); afterwards
// the host is healthy again and a plain request must be served.
func c10RetryNoHost(c *lab.Ctx, e *engine, proto string) {
	var host types.Host
	if snap := cluster.GetClusterMngAdapterInstance().GetClusterSnapshot(nil, "cl-"+proto+"-one"); snap != nil {
		snap.HostSet().Range(func(h types.Host) bool { host = h; return false })
	}
	if host == nil {
		c.Inconclusive("c10 retry-no-host: host of cl-" + proto + "-one not found")
		return
	}
	cl := e.newClient(proto, proto+"-nohost")
	defer cl.close()
	for rep := 0; rep < c.Pick(3, 10); rep++ {
		tok := fmt.Sprintf("nohost-%d-%s-%d", c.Batch, proto, rep)
		c.Case("c10 retry without a healthy host %s token=%s", proto, tok)
		done := make(chan clEvent, 1)
		go func() {
			r := reqFor(proto, "oneretry", tok, "d200:close")
			r.Body = []byte("retry-no-host")
			done <- cl.do(r)
		}()
		marked := false
		for i := 0; i < 300 && !marked; i++ {
			if len(e.log.upsFor(tok)) > 0 {
				host.SetHealthFlag(api.FAILED_OUTLIER_CHECK)
				marked = true
			}
			time.Sleep(time.Millisecond)
		}
		ev := <-done
		host.ClearHealthFlag(api.FAILED_OUTLIER_CHECK)
		c.Eval(1)
		if !marked {
			c.Inconclusive("c10 retry-no-host: the first attempt never reached the upstream")
		}
		c.Distinct(fmt.Sprintf("nohost|%s|%s%d|attempts=%d", proto, ev.Kind, ev.Status, len(e.log.upsFor(tok))))
		c.Count(fmt.Sprintf("retry-no-host-outcome:%s:%s%d", proto, ev.Kind, ev.Status), 1)
		if ev.Kind != "response" {
			cl.close()
		}
		// the cluster must serve again
		t2 := tok + "-after"
		if ev2 := cl.do(reqFor(proto, "gaw", t2, "ok")); ev2.Kind != "response" || len(e.log.upsFor(t2)) == 0 {
			c.Violation("limits-trip-at-thresholds", "C10/retry-no-host/cluster-unusable-afterwards/"+proto,
				fmt.Sprintf("%s: after a retry found no healthy host (host healthy again) a plain request to the cluster got %s %d", proto, ev2.Kind, ev2.Status), map[string]interface{}{"token": t2})
			cl.close()
		}
	}
}
