package props

// C05 — load balancers return only current, healthy members of the cluster.
//
//   c05-policies    every policy (and subset-on-top) x sizes x ALL 2^n health patterns (n<=8) x weight vectors x picks,
//                   with retry re-entry, hash keys and perturbed gauges. Oracle at the boundary: the answer is a
//                   member of the set, healthy when a healthy member exists, nil only when none is healthy.
//   c05-concurrent  readers take cluster snapshots through the cluster manager while a writer replaces / appends /
//                   removes host sets; every host set carries a version in its addresses. Oracle: snapshot host set
//                   is single-versioned, the answer belongs to that same snapshot, and the version lies between the
//                   last version published before the call and the last one started before the return
//                   (versioned-register linearizability); sampled histories additionally go through porcupine.

import (
	"context"
	"fmt"
	"sort"
	"strconv"
	"strings"
	"sync"
	"sync/atomic"
	"time"

	"github.com/anishathalye/porcupine"
	"mosn.io/api"
	v2 "mosn.io/mosn/pkg/config/v2"
	"mosn.io/mosn/pkg/log"
	"mosn.io/mosn/pkg/router"
	"mosn.io/mosn/pkg/types"
	"mosn.io/mosn/pkg/upstream/cluster"
	"mosn.io/pkg/variable"

	"verif/harness/lab"
)

func init() {
	lab.Register("c05-policies", c05Policies)
	lab.Register("c05-concurrent", c05Concurrent)
	log.DefaultLogger.SetLogLevel(log.ERROR)
}

var c05Policies_ = []types.LoadBalancerType{
	types.Random, types.RoundRobin, types.WeightedRoundRobin, types.LeastActiveRequest,
	types.LeastActiveConnection, types.PeakEwma, types.Maglev, types.RequestRoundRobin,
}

func c05Weights(rng *lab.Rand, kind, n int) []uint32 {
	ws := make([]uint32, n)
	for i := range ws {
		switch kind {
		case 0:
			ws[i] = 1
		case 1:
			ws[i] = uint32(1 + i*3)
		case 2:
			ws[i] = 1
			if i == n-1 {
				ws[i] = 100
			}
		case 3:
			ws[i] = []uint32{1, 128}[i%2]
		default:
			ws[i] = uint32(1 + rng.Intn(128))
		}
	}
	return ws
}

func c05Policies(c *lab.Ctx) {
	c.Rule("policy x subset-wrapper x size{0,1,2,3,5,8,(17)} x all 2^n health patterns for n<=8 (random above) x 5 weight kinds x picks with retry re-entry/hash keys/perturbed gauges; distinct = (policy, subset, size, weight kind, health pattern)")
	rng := c.Rand("policies")
	sizes := []int{0, 1, 2, 3, 5, 8}
	picks := c.Pick(40, 200)
	cfgNo := 0
	for _, pol := range c05Policies_ {
		for _, subset := range []bool{false, true} {
			for _, n := range sizes {
				for wk := 0; wk < 5; wk++ {
					if n == 0 && wk > 0 {
						continue
					}
					// shard whole configurations across batches
					cfgNo++
					if cfgNo%c.NBatch != c.Batch {
						continue
					}
					ws := c05Weights(rng, wk, n)
					npat := 1 << uint(n)
					for pat := 0; pat < npat; pat++ {
						c05OneConfig(c, rng, pol, subset, n, wk, ws, uint64(pat), picks)
					}
				}
			}
			// larger sets, random patterns
			for _, n := range []int{17, 40} {
				for k := 0; k < c.Pick(6, 60); k++ {
					cfgNo++
					if cfgNo%c.NBatch != c.Batch {
						continue
					}
					wk := rng.Intn(5)
					pat := rng.Uint64() & (1<<uint(n) - 1)
					switch rng.Intn(4) {
					case 0:
						pat = 1<<uint(n) - 1 // all unhealthy
					case 1:
						pat = (1<<uint(n) - 1) &^ (1 << uint(rng.Intn(n))) // exactly one healthy
					}
					c05OneConfig(c, rng, pol, subset, n, wk, c05Weights(rng, wk, n), pat, picks)
				}
			}
		}
	}
	c.Exhaustive(false)
	c.Require("picks evaluated", c.Counter("picks") > 1000, fmt.Sprint(c.Counter("picks")))
}

func c05OneConfig(c *lab.Ctx, rng *lab.Rand, pol types.LoadBalancerType, subset bool, n, wk int, ws []uint32, pat uint64, picks int) {
	c.Case("policy=%s subset=%v n=%d wk=%d weights=%v unhealthy=%b", pol, subset, n, wk, ws, pat)
	cc := v2.Cluster{Name: fmt.Sprintf("c05-%s-%v", pol, subset), LbType: v2.LbType(pol)}
	if subset {
		cc.LBSubSetConfig = v2.LBSubsetConfig{FallBackPolicy: 1 /* any endpoint */, SubsetSelectors: [][]string{{"zone"}}}
	}
	info := cluster.NewClusterInfo(cc)
	hosts := make([]types.Host, n)
	member := map[string]int{}
	for i := range hosts {
		hosts[i] = mkHost(info, fmt.Sprintf("10.5.0.%d:80", i+1), ws[i], map[string]string{"zone": []string{"a", "b"}[i%2]})
		member[hosts[i].AddressString()] = i
		if pat>>uint(i)&1 == 1 {
			hosts[i].SetHealthFlag(api.FAILED_ACTIVE_HC)
		}
		if rng.Chance(1, 3) {
			hosts[i].HostStats().UpstreamRequestActive.Inc(int64(rng.Intn(20)))
			hosts[i].HostStats().UpstreamConnectionActive.Inc(int64(rng.Intn(20)))
		}
	}
	hs := cluster.NewHostSet(hosts)
	var lb, lbNoFallback types.LoadBalancer
	if subset {
		// both subset builders (the pre-indexing one is what clusters use by default), alternating with the weight kind
		build := func(i types.ClusterInfo, h types.HostSet) types.LoadBalancer {
			return cluster.NewSubsetLoadBalancer(i, h)
		}
		if (int(pat)+wk)%2 == 0 {
			build = cluster.NewSubsetLoadBalancerPreIndex
		}
		lb = build(info, hs)
		cc2 := cc
		cc2.LBSubSetConfig = v2.LBSubsetConfig{FallBackPolicy: 0 /* no fallback */, SubsetSelectors: [][]string{{"zone"}}}
		lbNoFallback = build(cluster.NewClusterInfo(cc2), hs)
	} else {
		lb = cluster.NewLoadBalancer(info, hs)
	}
	anyHealthy := false
	for i := 0; i < n; i++ {
		if pat>>uint(i)&1 == 0 {
			anyHealthy = true
		}
	}
	sigBase := fmt.Sprintf("policy=%s/subset=%v", pol, subset)
	ctx := newLbCtx()
	for p := 0; p < picks; p++ {
		switch {
		case p%7 == 3: // fresh request context
			ctx = newLbCtx()
		case p%7 == 5: // retry re-entry: the previous index stays in the context (set by the balancer itself)
		case p%11 == 0: // forged re-entry index
			ctx = newLbCtx()
			_ = variable.SetString(ctx.ctx, cluster.VarProxyUpstreamIndex, strconv.Itoa(rng.Intn(n+2)))
		}
		ctx.route = newHashRoute(rng.Uint64())
		if p%5 == 0 && n > 0 {
			hosts[rng.Intn(n)].HostStats().UpstreamRequestActive.Inc(1)
		}
		h := lb.ChooseHost(ctx)
		c.Eval(1)
		c.Count("picks", 1)
		if h == nil {
			if anyHealthy {
				c.Violation("nil-only-when-none-healthy", "C05/nil-while-healthy-exists/"+sigBase,
					fmt.Sprintf("policy %s subset=%v: %d hosts, weights %v, unhealthy mask %b: ChooseHost returned nil although a healthy host exists (pick %d)", pol, subset, n, ws, pat, p),
					map[string]interface{}{"policy": pol, "subset": subset, "n": n, "weights": ws, "unhealthy_mask": pat, "pick": p})
			}
			continue
		}
		i, ok := member[h.AddressString()]
		if !ok {
			c.Violation("answer-is-member", "C05/foreign-host/"+sigBase,
				fmt.Sprintf("policy %s: returned %s which is not in the host set", pol, h.AddressString()), nil)
			continue
		}
		if !h.Health() {
			if anyHealthy {
				c.Violation("healthy-when-healthy-exists", "C05/unhealthy-returned/"+sigBase,
					fmt.Sprintf("policy %s subset=%v: %d hosts, weights %v, unhealthy mask %b: returned unhealthy host #%d although a healthy host exists (pick %d)", pol, subset, n, ws, pat, i, p),
					map[string]interface{}{"policy": pol, "subset": subset, "n": n, "weights": ws, "unhealthy_mask": pat, "pick": p})
			} else {
				c.Violation("nil-when-none-healthy", "C05/unhealthy-returned-none-healthy/"+sigBase,
					fmt.Sprintf("policy %s subset=%v: %d hosts all unhealthy: returned host #%d instead of no host", pol, subset, n, i),
					map[string]interface{}{"policy": pol, "subset": subset, "n": n, "weights": ws, "unhealthy_mask": pat, "pick": p})
			}
		}
	}
	// phase 2: the health of the hosts changes WITHOUT a host-set update (what health checks do to a published set) - the balancers
	// built under the first pattern are asked again under a second one; with the subset wrapper the requests now carry criteria,
	// on a balancer with the any-endpoint fallback and on one with no fallback, both built under the FIRST pattern
	if n > 0 {
		mask := uint64(1)<<uint(n) - 1
		pat2 := []uint64{0, ^pat & mask, rng.Uint64() & mask}[int(pat)%3]
		for i := range hosts {
			if pat2>>uint(i)&1 == 1 {
				hosts[i].SetHealthFlag(api.FAILED_ACTIVE_HC)
			} else {
				hosts[i].ClearHealthFlag(api.FAILED_ACTIVE_HC)
			}
		}
		healthyIn := func(zone string) (members, healthy int) {
			for i := range hosts {
				if zone == "" || []string{"a", "b"}[i%2] == zone {
					members++
					if pat2>>uint(i)&1 == 0 {
						healthy++
					}
				}
			}
			return
		}
		lbs := []types.LoadBalancer{lb}
		names := []string{"any-endpoint"}
		if subset && lbNoFallback != nil {
			lbs = append(lbs, lbNoFallback)
			names = append(names, "no-fallback")
		}
		for li, l := range lbs {
			for p := 0; p < picks/2+2; p++ {
				ctx := newLbCtx()
				ctx.route = newHashRoute(rng.Uint64())
				zone := ""
				if subset {
					zone = []string{"a", "b", ""}[p%3]
					if li == 1 && zone == "" {
						zone = "a"
					}
					if zone != "" {
						ctx.mmc = router.NewMetadataMatchCriteriaImpl(map[string]string{"zone": zone})
					}
				}
				members, healthy := healthyIn(zone)
				if zone != "" && members == 0 {
					continue // no such subset: the fallback policy decides (C15's subject)
				}
				h := l.ChooseHost(ctx)
				c.Eval(1)
				c.Count("picks-after-health-change", 1)
				sig2 := sigBase + "/after-health-change"
				if subset {
					sig2 += "/" + names[li]
				}
				wit := map[string]interface{}{"policy": pol, "subset": subset, "n": n, "weights": ws, "unhealthy_mask_at_build": pat, "unhealthy_mask_now": pat2, "criteria_zone": zone}
				if h == nil {
					if healthy > 0 {
						c.Violation("nil-only-when-none-healthy", "C05/nil-while-healthy-exists/"+sig2,
							fmt.Sprintf("policy %s subset=%v (%s): %d hosts, unhealthy mask %b when the balancer was built, %b now, criteria zone=%q: no host returned although %d healthy host(s) qualify", pol, subset, names[li], n, pat, pat2, zone, healthy), wit)
						break
					}
					continue
				}
				if _, ok := member[h.AddressString()]; !ok {
					c.Violation("answer-is-member", "C05/foreign-host/"+sig2, fmt.Sprintf("policy %s: returned %s which is not in the host set", pol, h.AddressString()), wit)
					break
				}
				if !h.Health() && healthy > 0 {
					c.Violation("healthy-when-healthy-exists", "C05/unhealthy-returned/"+sig2,
						fmt.Sprintf("policy %s subset=%v (%s): unhealthy mask %b at build, %b now, criteria zone=%q: returned unhealthy host %s although %d healthy host(s) qualify", pol, subset, names[li], pat, pat2, zone, h.AddressString(), healthy), wit)
					break
				}
			}
		}
		c.Distinct(fmt.Sprintf("%s|%v|%d|phase2|%b>%b", pol, subset, n, pat, pat2))
	}
	c.Distinct(fmt.Sprintf("%s|%v|%d|%d|%b", pol, subset, n, wk, pat))
	if pat == 5 && n == 3 && wk == 1 {
		c.Sample(map[string]interface{}{"policy": pol, "subset": subset, "weights": ws, "unhealthy_mask": pat, "picks": picks})
	}
	// leave the shared health words clean
	for _, h := range hosts {
		h.ClearHealthFlag(api.FAILED_ACTIVE_HC)
	}
}

// ---------------------------------------------------------------------------------------------------------------

func c05Ver(addr string) int {
	// 10.V1.V2.i:port  -> version = V1*256+V2
	p := strings.Split(addr, ".")
	if len(p) < 4 {
		return -1
	}
	a, _ := strconv.Atoi(p[1])
	b, _ := strconv.Atoi(p[2])
	return a*256 + b
}

type c05regIn struct {
	Write bool
	V     int
}

var c05RegModel = porcupine.Model{
	Init: func() interface{} { return 0 },
	Step: func(state, input, output interface{}) (bool, interface{}) {
		in := input.(c05regIn)
		if in.Write {
			return true, in.V
		}
		return output.(int) == state.(int), state
	},
}

func c05Concurrent(c *lab.Ctx) {
	c.Rule("8 readers take snapshots via the cluster manager and ChooseHost while a writer replaces the host set with version-labelled sets (replace) and appends/removes hosts; per policy; distinct = (policy, version observed); histories of reads+writes (<=40 ops) checked as a versioned register with porcupine")
	cm := cluster.NewClusterManagerSingleton(nil, nil, nil)
	rounds := c.Pick(60, 400)
	var evals int64
	for pi, pol := range c05Policies_ {
		for _, subset := range []bool{false, true} {
			name := fmt.Sprintf("c05c-%s-%v", pol, subset)
			cc := v2.Cluster{Name: name, LbType: v2.LbType(pol)}
			if subset {
				cc.LBSubSetConfig = v2.LBSubsetConfig{FallBackPolicy: 1, SubsetSelectors: [][]string{{"zone"}}}
			}
			if err := cm.AddOrUpdatePrimaryCluster(cc); err != nil {
				c.Inconclusive("add cluster failed")
				continue
			}
			mkSet := func(ver, n int) []v2.Host {
				hs := make([]v2.Host, n)
				for i := range hs {
					hs[i] = v2.Host{HostConfig: v2.HostConfig{Address: fmt.Sprintf("10.%d.%d.%d:80", ver/256, ver%256, i+1), Weight: uint32(1 + (i*7+ver)%5)},
						MetaData: map[string]string{"zone": []string{"a", "b"}[i%2]}}
				}
				return hs
			}
			base := 1 + pi*2000
			if subset {
				base += 1000
			}
			var started, published int64 // version numbers
			atomic.StoreInt64(&started, int64(base))
			if err := cm.UpdateClusterHosts(name, mkSet(base, 3)); err != nil {
				c.Inconclusive("update hosts failed")
				continue
			}
			atomic.StoreInt64(&published, int64(base))
			c.Case("concurrent policy=%s subset=%v rounds=%d", pol, subset, rounds)
			stop := make(chan struct{})
			var wg sync.WaitGroup
			var hmu sync.Mutex
			var hist []porcupine.Operation
			t0 := time.Now()
			sigBase := fmt.Sprintf("policy=%s/subset=%v", pol, subset)
			for r := 0; r < 8; r++ {
				wg.Add(1)
				go func(r int) {
					defer wg.Done()
					ctx := newLbCtx()
					k := 0
					for {
						select {
						case <-stop:
							return
						default:
						}
						k++
						lo := atomic.LoadInt64(&published)
						call := time.Since(t0).Nanoseconds()
						snap := cm.GetClusterSnapshot(context.Background(), name)
						ctx.route = newHashRoute(uint64(k) * 2654435761)
						var h types.Host
						if snap != nil {
							h = snap.LoadBalancer().ChooseHost(ctx)
						}
						ret := time.Since(t0).Nanoseconds()
						hi := atomic.LoadInt64(&started)
						atomic.AddInt64(&evals, 1)
						if snap == nil {
							c.Violation("snapshot-exists", "C05/concurrent/nil-snapshot/"+sigBase, "GetClusterSnapshot returned nil for an existing cluster during host updates", nil)
							continue
						}
						// the snapshot's own host set must be single-versioned (replace ops only in this phase)
						sv := -1
						mixed := false
						in := map[string]bool{}
						snap.HostSet().Range(func(x types.Host) bool {
							v := c05Ver(x.AddressString())
							if sv == -1 {
								sv = v
							} else if sv != v {
								mixed = true
							}
							in[x.AddressString()] = true
							return true
						})
						if mixed {
							c.Violation("entirely-old-or-new", "C05/concurrent/mixed-host-set/"+sigBase, "a snapshot's host set mixes hosts of two versions", nil)
						}
						if h == nil {
							if snap.HostSet().Size() > 0 {
								c.Violation("nil-only-when-none-healthy", "C05/concurrent/nil-while-healthy-exists/"+sigBase,
									fmt.Sprintf("policy %s: nil host from a snapshot with %d healthy hosts during replacement", pol, snap.HostSet().Size()), nil)
							}
							continue
						}
						if !in[h.AddressString()] {
							c.Violation("answer-in-own-snapshot", "C05/concurrent/answer-outside-snapshot/"+sigBase,
								fmt.Sprintf("policy %s: balancer of a snapshot answered %s which is not in that snapshot's host set (version %d)", pol, h.AddressString(), sv), nil)
						}
						v := int64(c05Ver(h.AddressString()))
						if v < lo || v > hi {
							c.Violation("versioned-register", "C05/concurrent/stale-or-future-version/"+sigBase,
								fmt.Sprintf("policy %s: answer of version %d, but versions published before the call: %d, started before the return: %d", pol, v, lo, hi), nil)
						}
						c.Distinct(fmt.Sprintf("%s|%d", sigBase, v))
						if r == 0 && k%16 == 0 {
							hmu.Lock()
							if len(hist) < 36 {
								hist = append(hist, porcupine.Operation{ClientId: 1, Input: c05regIn{}, Output: int(v), Call: call, Return: ret})
							}
							hmu.Unlock()
						}
					}
				}(r)
			}
			for i := 1; i <= rounds; i++ {
				ver := base + i
				atomic.StoreInt64(&started, int64(ver))
				call := time.Since(t0).Nanoseconds()
				err := cm.UpdateClusterHosts(name, mkSet(ver, 1+i%6))
				ret := time.Since(t0).Nanoseconds()
				if err != nil {
					c.Inconclusive("update failed")
				}
				atomic.StoreInt64(&published, int64(ver))
				hmu.Lock()
				if len(hist) < 36 {
					hist = append(hist, porcupine.Operation{ClientId: 0, Input: c05regIn{Write: true, V: ver}, Call: call, Return: ret})
				}
				hmu.Unlock()
				if i%4 == 0 {
					time.Sleep(50 * time.Microsecond)
				}
			}
			close(stop)
			wg.Wait()
			// porcupine on the sampled history (initial state = base version)
			m := c05RegModel
			m.Init = func() interface{} { return base }
			res := porcupine.CheckOperations(m, hist)
			c.Count("porcupine-histories", 1)
			c.Count("porcupine-ops", int64(len(hist)))
			if !res {
				c.Violation("versioned-register", "C05/concurrent/non-linearizable/"+sigBase, fmt.Sprintf("sampled history of %d ops is not a linearizable versioned register", len(hist)), nil)
			}
			// append / remove phase: membership w.r.t. union of everything ever configured + health
			final := base + rounds
			_ = cm.AppendClusterHosts(name, mkSet(final, 8)[6:8])
			snap := cm.GetClusterSnapshot(context.Background(), name)
			want := (1 + rounds%6) + 2
			if (1 + rounds%6) >= 7 {
				want = 8
			}
			if snap.HostSet().Size() != want {
				c.Violation("append-adds-hosts", "C05/append/host-set-size", fmt.Sprintf("after append: %d hosts, want %d", snap.HostSet().Size(), want), nil)
			}
			_ = cm.RemoveClusterHosts(name, []string{fmt.Sprintf("10.%d.%d.%d:80", final/256, final%256, 1)})
			snap = cm.GetClusterSnapshot(context.Background(), name)
			ctx := newLbCtx()
			for k := 0; k < 200; k++ {
				ctx.route = newHashRoute(uint64(k) * 40503)
				if k%3 == 0 {
					ctx = newLbCtx()
					ctx.route = newHashRoute(uint64(k) * 40503)
				}
				h := snap.LoadBalancer().ChooseHost(ctx)
				atomic.AddInt64(&evals, 1)
				if h != nil && h.AddressString() == fmt.Sprintf("10.%d.%d.%d:80", final/256, final%256, 1) {
					c.Violation("removed-host-not-returned", "C05/remove/removed-host-returned/"+sigBase, "a removed host is still returned", nil)
					break
				}
			}
			_ = cm.RemovePrimaryCluster(name)
		}
	}
	c.Eval(int(evals))
	c.Count("concurrent-lookups", evals)
	c.Sample(map[string]interface{}{"readers": 8, "replacements_per_policy": rounds})
	c.Require("concurrent lookups", evals > 10000, fmt.Sprint(evals))
}

// ---------------------------------------------------------------------------------------------------------------
// c05-membership: "only ever returns a host that belongs to the cluster's current host set" across sequences of host-set
// updates through the cluster manager (replace, append, remove of several addresses in any order, also unknown and duplicate
// addresses), against a reference set.

func init() { lab.Register("c05-membership", c05Membership) }

func c05Membership(c *lab.Ctx) {
	c.Rule("per policy (x subset wrapper) histories of 20..60 host-set updates through the cluster manager: replace with 0..9 hosts, append 1..3 (also already present), remove 1..4 addresses in PRNG order (ascending / descending / shuffled ports, unknown and duplicate addresses); after every update the snapshot's host set must equal the reference set and 40 picks must stay inside it; distinct = (policy, operation, list shape, set size)")
	cm := cluster.NewClusterManagerSingleton(nil, nil, nil)
	rng := c.Rand("membership")
	hists := c.Pick(6, 40)
	n := 0
	for _, pol := range c05Policies_ {
		for _, subset := range []bool{false, true} {
			for hi := 0; hi < hists; hi++ {
				n++
				hrng := rng.Fork()
				if n%c.NBatch != c.Batch {
					continue
				}
				name := fmt.Sprintf("c05m-%s-%v-%d", pol, subset, hi)
				cc := v2.Cluster{Name: name, LbType: v2.LbType(pol)}
				if subset {
					cc.LBSubSetConfig = v2.LBSubsetConfig{FallBackPolicy: 1, SubsetSelectors: [][]string{{"zone"}}}
				}
				if err := cm.AddOrUpdatePrimaryCluster(cc); err != nil {
					c.Inconclusive("add cluster failed")
					continue
				}
				addr := func(i int) string { return fmt.Sprintf("10.5.%d.1:%d", hi%200, 7+i) } // ports 7..26: ":10" sorts before ":8"
				mk := func(i int) v2.Host {
					return v2.Host{HostConfig: v2.HostConfig{Address: addr(i), Weight: uint32(1 + i%4)}, MetaData: map[string]string{"zone": []string{"a", "b"}[i%2]}}
				}
				model := map[string]bool{}
				var ops []string
				steps := 20 + hrng.Intn(41)
				for si := 0; si < steps; si++ {
					var desc, shape string
					switch hrng.Intn(5) {
					case 0: // replace
						var hs []v2.Host
						model = map[string]bool{}
						for _, i := range hrng.Perm(20)[:hrng.Intn(10)] {
							hs = append(hs, mk(i))
							model[addr(i)] = true
						}
						err := cm.UpdateClusterHosts(name, hs)
						desc, shape = fmt.Sprintf("replace(%d hosts, err=%v)", len(hs), err != nil), "replace"
					case 1: // append
						var hs []v2.Host
						for k := 1 + hrng.Intn(3); k > 0; k-- {
							i := hrng.Intn(20)
							hs = append(hs, mk(i))
							model[addr(i)] = true
						}
						err := cm.AppendClusterHosts(name, hs)
						desc, shape = fmt.Sprintf("append(%d hosts, err=%v)", len(hs), err != nil), "append"
					default: // remove several addresses
						k := 1 + hrng.Intn(4)
						var idx []int
						for _, i := range hrng.Perm(20)[:k] {
							idx = append(idx, i)
						}
						shape = []string{"ascending-ports", "descending-ports", "shuffled"}[hrng.Intn(3)]
						switch shape {
						case "ascending-ports":
							sort.Ints(idx)
						case "descending-ports":
							sort.Sort(sort.Reverse(sort.IntSlice(idx)))
						}
						var addrs []string
						for _, i := range idx {
							addrs = append(addrs, addr(i))
						}
						if hrng.Intn(4) == 0 {
							at := hrng.Intn(len(addrs) + 1)
							addrs = append(addrs[:at], append([]string{"10.99.99.99:1"}, addrs[at:]...)...) // an address that is no member
							shape += "+unknown"
						}
						if hrng.Intn(6) == 0 {
							addrs = append(addrs, addrs[0])
							shape += "+duplicate"
						}
						err := cm.RemoveClusterHosts(name, addrs)
						for _, a := range addrs {
							delete(model, a)
						}
						desc = fmt.Sprintf("remove(%v, err=%v)", addrs, err != nil)
						shape = "remove/" + shape
					}
					ops = append(ops, desc)
					c.Case("c05 membership %s step=%d %s", name, si, desc)
					c.Eval(1)
					snap := cm.GetClusterSnapshot(context.Background(), name)
					if snap == nil {
						c.Violation("snapshot-exists", "C05/membership/nil-snapshot", "no snapshot for "+name, nil)
						break
					}
					live := map[string]bool{}
					snap.HostSet().Range(func(h types.Host) bool { live[h.AddressString()] = true; return true })
					hist := ops
					if len(hist) > 8 {
						hist = hist[len(hist)-8:]
					}
					wit := map[string]interface{}{"policy": string(pol), "subset": subset, "last_operations": hist, "live": sortedKeys(live), "reference": sortedKeys(model)}
					sig := fmt.Sprintf("policy=%s/subset=%v/op=%s", pol, subset, strings.SplitN(shape, "+", 2)[0])
					if fmt.Sprint(sortedKeys(live)) != fmt.Sprint(sortedKeys(model)) {
						c.Violation("host-set-is-what-the-updates-say", "C05/membership/host-set-differs/"+sig,
							fmt.Sprintf("policy %s after %s: the cluster's host set is %v, the update history gives %v", pol, desc, sortedKeys(live), sortedKeys(model)), wit)
						model = live // judge later steps afresh
					}
					ctx := newLbCtx()
					for k := 0; k < 40; k++ {
						ctx.route = newHashRoute(uint64(k)*2654435761 + uint64(si))
						h := snap.LoadBalancer().ChooseHost(ctx)
						if h == nil {
							if len(model) > 0 {
								c.Violation("nil-only-when-none-healthy", "C05/membership/nil-while-members-exist/"+sig, fmt.Sprintf("policy %s after %s: no host although %d healthy members exist", pol, desc, len(model)), wit)
								break
							}
							continue
						}
						if !model[h.AddressString()] {
							c.Violation("answer-is-a-current-member", "C05/membership/removed-host-returned/"+sig,
								fmt.Sprintf("policy %s after %s: ChooseHost returned %s which is not a member of the current host set %v", pol, desc, h.AddressString(), sortedKeys(model)), wit)
							break
						}
					}
					c.Distinct(fmt.Sprintf("%s|%v|%s|%d", pol, subset, shape, len(model)))
				}
			}
		}
	}
	c05Shared(c, cm)
}

// c05Shared: two clusters share addresses (as the clusters of two services behind one set of pods do). The health of a host is
// kept per ADDRESS: a condition set through a host object of one cluster (that cluster's health checker) holds for the host
// objects of the same address in the other cluster and for host objects created later by routine host pushes. Cluster Y always
// keeps every shared address (re-pushed with fresh host objects), cluster X is replaced by arbitrary subsets; an address that was
// flagged and never cleared must not be returned by either cluster while that cluster has an unflagged member.
func c05Shared(c *lab.Ctx, cm types.ClusterManager) {
	rng := c.Rand("shared")
	n := 0
	for _, pol := range c05Policies_ {
		for hi := 0; hi < c.Pick(3, 20); hi++ {
			n++
			hrng := rng.Fork()
			if n%c.NBatch != c.Batch {
				continue
			}
			nameX, nameY := fmt.Sprintf("c05sx-%s-%d", pol, hi), fmt.Sprintf("c05sy-%s-%d", pol, hi)
			for _, nm := range []string{nameX, nameY} {
				if err := cm.AddOrUpdatePrimaryCluster(v2.Cluster{Name: nm, LbType: v2.LbType(pol)}); err != nil {
					c.Inconclusive("add cluster failed")
				}
			}
			addr := func(i int) string { return fmt.Sprintf("10.6.%d.%d:80", n%250, 1+i) }
			mk := func(i int) v2.Host {
				return v2.Host{HostConfig: v2.HostConfig{Address: addr(i), Weight: uint32(1 + i%3)}}
			}
			const S = 5
			all := func() []v2.Host {
				var hs []v2.Host
				for i := 0; i < S; i++ {
					hs = append(hs, mk(i))
				}
				return hs
			}
			_ = cm.UpdateClusterHosts(nameY, all())
			_ = cm.UpdateClusterHosts(nameX, all())
			inX := map[string]bool{}
			for i := 0; i < S; i++ {
				inX[addr(i)] = true
			}
			flagged := map[string]bool{}
			var ops []string
			hostOf := func(cluster, a string) types.Host {
				snap := cm.GetClusterSnapshot(context.Background(), cluster)
				var out types.Host
				if snap != nil {
					snap.HostSet().Range(func(h types.Host) bool {
						if h.AddressString() == a {
							out = h
							return false
						}
						return true
					})
				}
				return out
			}
			for si := 0; si < 24; si++ {
				desc := ""
				switch hrng.Intn(6) {
				case 0, 1: // a health checker of X or Y marks an address failed
					a := addr(hrng.Intn(S))
					cl := hrng.PickStr(nameX, nameY)
					if h := hostOf(cl, a); h != nil && len(flagged) < S-1 {
						h.SetHealthFlag(api.FAILED_ACTIVE_HC)
						flagged[a] = true
						desc = fmt.Sprintf("flag(%s via %s)", a, cl)
					} else {
						desc = "flag(skipped)"
					}
				case 2: // ... or healthy again
					a := addr(hrng.Intn(S))
					if h := hostOf(nameY, a); h != nil {
						h.ClearHealthFlag(api.FAILED_ACTIVE_HC)
						delete(flagged, a)
						desc = fmt.Sprintf("clear(%s)", a)
					}
				case 3, 4: // X is replaced by a subset of the shared addresses
					var hs []v2.Host
					inX = map[string]bool{}
					for _, i := range hrng.Perm(S)[:hrng.Intn(S+1)] {
						hs = append(hs, mk(i))
						inX[addr(i)] = true
					}
					_ = cm.UpdateClusterHosts(nameX, hs)
					desc = fmt.Sprintf("replace-X(%d hosts)", len(hs))
				default: // a routine push of Y's (unchanged) host list: new host objects for every address
					_ = cm.UpdateClusterHosts(nameY, all())
					desc = "repush-Y"
				}
				ops = append(ops, desc)
				c.Case("c05 shared %s/%s step=%d %s", nameX, nameY, si, desc)
				c.Eval(1)
				for _, cl := range []string{nameX, nameY} {
					members := map[string]bool{}
					if cl == nameY {
						for i := 0; i < S; i++ {
							members[addr(i)] = true
						}
					} else {
						members = inX
					}
					healthy := 0
					for a := range members {
						if !flagged[a] {
							healthy++
						}
					}
					snap := cm.GetClusterSnapshot(context.Background(), cl)
					if snap == nil {
						continue
					}
					ctx := newLbCtx()
					hist := ops
					if len(hist) > 10 {
						hist = hist[len(hist)-10:]
					}
					wit := map[string]interface{}{"policy": string(pol), "last_operations": hist, "flagged_and_never_cleared": sortedKeys(flagged), "members": sortedKeys(members), "cluster": cl}
					for k := 0; k < 30; k++ {
						ctx.route = newHashRoute(uint64(k)*2654435761 + uint64(si))
						h := snap.LoadBalancer().ChooseHost(ctx)
						if h == nil {
							if healthy > 0 {
								c.Violation("nil-only-when-none-healthy", "C05/shared-address/nil-while-healthy-exists/policy="+string(pol),
									fmt.Sprintf("policy %s, two clusters sharing addresses, after %s: no host from %s although %d unflagged members exist", pol, desc, cl, healthy), wit)
								break
							}
							continue
						}
						if flagged[h.AddressString()] && healthy > 0 {
							c.Violation("healthy-host-when-one-exists", "C05/shared-address/failed-host-returned/policy="+string(pol),
								fmt.Sprintf("policy %s, two clusters sharing addresses, after %s: %s returned %s, which was marked failed and never cleared, although %d healthy members exist", pol, desc, cl, h.AddressString(), healthy), wit)
							break
						}
					}
				}
				c.Distinct(fmt.Sprintf("shared|%s|%s|%d|%d", pol, strings.SplitN(desc, "(", 2)[0], len(flagged), len(inX)))
			}
			// leave no condition behind (the store is process-wide)
			for i := 0; i < S; i++ {
				if h := hostOf(nameY, addr(i)); h != nil {
					h.ClearHealthFlag(api.FAILED_ACTIVE_HC)
				}
			}
			c.Count("shared-address-histories", 1)
		}
	}
}

func sortedKeys(m map[string]bool) []string {
	var out []string
	for k := range m {
		out = append(out, k)
	}
	sort.Strings(out)
	return out
}
