// Package lab is the shared frame of every worker: deterministic PRNG, case
// logging (before execution, so a process-fatal event is attributable),
// three-valued bookkeeping and the result file the driver merges.
package lab

import (
	"encoding/json"
	"flag"
	"fmt"
	"os"
	"path/filepath"
	"sort"
	"sync"
	"time"
)

// Violation is one observed refutation of a property.
type Violation struct {
	Rule      string      `json:"rule"`
	Signature string      `json:"signature"`
	What      string      `json:"what"`
	Witness   interface{} `json:"witness,omitempty"`
}

type requirement struct {
	Name   string `json:"name"`
	OK     bool   `json:"ok"`
	Detail string `json:"detail"`
	Mode   string `json:"mode"`
}

// Ctx is handed to each worker command.
type Ctx struct {
	Property string
	Tier     string
	Seed     uint64
	Batch    int
	NBatch   int
	Out      string
	Replay   map[string]interface{}
	Args     []string

	mu           sync.Mutex
	inputFile    *os.File
	caseLog      *os.File
	evaluations  int64
	distinct     map[string]struct{}
	distinctOver int64
	samples      []interface{}
	counters     map[string]int64
	inconclusive int64
	violations   []Violation
	vioSeen      map[string]int
	reqs         []requirement
	assumptions  []string
	rule         string
	exhaustive   *bool
	start        time.Time
}

// Thorough reports whether the thorough tier was requested.
func (c *Ctx) Thorough() bool { return c.Tier == "thorough" }

// Pick returns q for the quick tier and t for the thorough tier.
func (c *Ctx) Pick(q, t int) int {
	if c.Thorough() {
		return t
	}
	return q
}

// Rand returns the PRNG stream of (property, job-label, batch).
func (c *Ctx) Rand(label string) *Rand {
	h := uint64(1469598103934665603)
	for _, b := range []byte(c.Property + "/" + label) {
		h = (h ^ uint64(b)) * 1099511628211
	}
	return NewRand(c.Seed*0x9E3779B97F4A7C15 ^ h ^ (uint64(c.Batch)+1)*0xD1B54A32D192ED03)
}

// Case logs a case description before it is executed.
func (c *Ctx) Case(format string, a ...interface{}) {
	c.mu.Lock()
	if c.caseLog != nil {
		fmt.Fprintf(c.caseLog, format+"\n", a...)
	}
	c.mu.Unlock()
}

// CaseBytes writes the raw input of the next call to a side file (overwritten).
func (c *Ctx) CaseBytes(b []byte) {
	// one pwrite into a persistent file: [8-byte length][bytes]; cheap enough to do before every call
	c.mu.Lock()
	defer c.mu.Unlock()
	if c.inputFile == nil {
		c.inputFile, _ = os.OpenFile(filepath.Join(c.Out, "last_input.bin"), os.O_CREATE|os.O_RDWR|os.O_TRUNC, 0o644)
		if c.inputFile == nil {
			return
		}
	}
	if len(b) > 1<<16 {
		b = b[:1<<16]
	}
	buf := make([]byte, 8+len(b))
	n := uint64(len(b))
	for i := 0; i < 8; i++ {
		buf[i] = byte(n >> (8 * uint(7-i)))
	}
	copy(buf[8:], b)
	_, _ = c.inputFile.WriteAt(buf, 0)
}

func (c *Ctx) Eval(n int) {
	c.mu.Lock()
	c.evaluations += int64(n)
	c.mu.Unlock()
}

// Distinct records a behavioural signature that was observed.
func (c *Ctx) Distinct(sig string) {
	c.mu.Lock()
	if len(c.distinct) < 200000 {
		c.distinct[sig] = struct{}{}
	} else if _, ok := c.distinct[sig]; !ok {
		c.distinctOver++ // conservative: not counted as distinct
	}
	c.mu.Unlock()
}

func (c *Ctx) Sample(v interface{}) {
	c.mu.Lock()
	if len(c.samples) < 4 {
		c.samples = append(c.samples, v)
	}
	c.mu.Unlock()
}

func (c *Ctx) Count(name string, n int64) {
	c.mu.Lock()
	c.counters[name] += n
	c.mu.Unlock()
}

func (c *Ctx) Counter(name string) int64 {
	c.mu.Lock()
	defer c.mu.Unlock()
	return c.counters[name]
}

func (c *Ctx) Inconclusive(why string) {
	c.mu.Lock()
	c.inconclusive++
	c.counters["inconclusive:"+why]++
	c.mu.Unlock()
}

// Violation records a refutation. Only the first 3 witnesses per signature are kept.
func (c *Ctx) Violation(rule, signature, what string, witness interface{}) {
	c.mu.Lock()
	defer c.mu.Unlock()
	c.vioSeen[signature]++
	c.counters["violation:"+signature]++
	if c.vioSeen[signature] > 2 {
		return
	}
	c.violations = append(c.violations, Violation{Rule: rule, Signature: signature, What: what, Witness: witness})
}

// Violations returns how many violations were recorded so far.
func (c *Ctx) Violations() int {
	c.mu.Lock()
	defer c.mu.Unlock()
	n := 0
	for _, v := range c.vioSeen {
		n += v
	}
	return n
}

// Require records a minimum-observation threshold (mode "any": satisfied if
// any batch satisfies it; "all": every batch must).
func (c *Ctx) Require(name string, ok bool, detail string) { c.require(name, ok, detail, "any") }
func (c *Ctx) RequireAll(name string, ok bool, detail string) {
	c.require(name, ok, detail, "all")
}
func (c *Ctx) require(name string, ok bool, detail, mode string) {
	c.mu.Lock()
	c.reqs = append(c.reqs, requirement{name, ok, detail, mode})
	c.mu.Unlock()
}

func (c *Ctx) Assume(s string) {
	c.mu.Lock()
	c.assumptions = append(c.assumptions, s)
	c.mu.Unlock()
}

func (c *Ctx) Rule(s string) { c.rule = s }

func (c *Ctx) Exhaustive(b bool) { c.exhaustive = &b }

// ReplayCase returns the case index to replay, or -1.
func (c *Ctx) ReplayCase() int {
	if c.Replay == nil {
		return -1
	}
	if w, ok := c.Replay["witness"].(map[string]interface{}); ok {
		if v, ok := w["case"].(float64); ok {
			return int(v)
		}
	}
	return -1
}

// Finish writes result.json.
func (c *Ctx) Finish() {
	c.mu.Lock()
	defer c.mu.Unlock()
	ds := make([]string, 0, len(c.distinct))
	for k := range c.distinct {
		ds = append(ds, Hash(k))
	}
	sort.Strings(ds)
	res := map[string]interface{}{
		"finished":     true,
		"property":     c.Property,
		"evaluations":  c.evaluations,
		"distinct":     ds,
		"samples":      c.samples,
		"counters":     c.counters,
		"inconclusive": c.inconclusive,
		"violations":   c.violations,
		"requirements": c.reqs,
		"assumptions":  c.assumptions,
		"rule":         c.rule,
		"wall_s":       time.Since(c.start).Seconds(),
	}
	if c.exhaustive != nil {
		res["exhaustive"] = *c.exhaustive
	}
	b, err := json.MarshalIndent(res, "", " ")
	if err != nil {
		fmt.Fprintln(os.Stderr, "marshal result:", err)
		os.Exit(3)
	}
	tmp := filepath.Join(c.Out, "result.json.tmp")
	if err := os.WriteFile(tmp, b, 0o644); err != nil {
		fmt.Fprintln(os.Stderr, "write result:", err)
		os.Exit(3)
	}
	_ = os.Rename(tmp, filepath.Join(c.Out, "result.json"))
	if c.caseLog != nil {
		c.caseLog.Close()
	}
}

// Hash is a short stable hash for signatures.
func Hash(s string) string {
	h := uint64(1469598103934665603)
	for i := 0; i < len(s); i++ {
		h = (h ^ uint64(s[i])) * 1099511628211
	}
	return fmt.Sprintf("%016x", h)
}

// Command is a worker sub-command.
type Command func(c *Ctx)

var commands = map[string]Command{}

// Register adds a worker sub-command.
func Register(name string, f Command) { commands[name] = f }

// Main dispatches os.Args to a registered command.
func Main() {
	if len(os.Args) < 2 {
		names := []string{}
		for k := range commands {
			names = append(names, k)
		}
		sort.Strings(names)
		fmt.Println("commands:", names)
		os.Exit(2)
	}
	name := os.Args[1]
	f, ok := commands[name]
	if !ok {
		fmt.Fprintln(os.Stderr, "unknown command", name)
		os.Exit(2)
	}
	fs := flag.NewFlagSet(name, flag.ExitOnError)
	c := &Ctx{distinct: map[string]struct{}{}, counters: map[string]int64{}, vioSeen: map[string]int{}, start: time.Now()}
	fs.StringVar(&c.Property, "property", "", "")
	fs.StringVar(&c.Tier, "tier", "quick", "")
	fs.Uint64Var(&c.Seed, "seed", 1, "")
	fs.IntVar(&c.Batch, "batch", 0, "")
	fs.IntVar(&c.NBatch, "nbatch", 1, "")
	fs.StringVar(&c.Out, "out", ".", "")
	var replay string
	fs.StringVar(&replay, "replay", "", "")
	_ = fs.Parse(os.Args[2:])
	c.Args = fs.Args()
	if replay != "" {
		b, err := os.ReadFile(replay)
		if err == nil {
			_ = json.Unmarshal(b, &c.Replay)
		}
	}
	_ = os.MkdirAll(c.Out, 0o755)
	c.caseLog, _ = os.OpenFile(filepath.Join(c.Out, "cases.log"), os.O_CREATE|os.O_WRONLY|os.O_TRUNC, 0o644)
	f(c)
	c.Finish()
}
