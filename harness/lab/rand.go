package lab

// Rand is a splitmix64 stream; all random choices of the machinery derive
// from VERIF_SEED through it.
type Rand struct{ s uint64 }

func NewRand(seed uint64) *Rand { return &Rand{s: seed} }

func (r *Rand) Uint64() uint64 {
	r.s += 0x9E3779B97F4A7C15
	z := r.s
	z = (z ^ (z >> 30)) * 0xBF58476D1CE4E5B9
	z = (z ^ (z >> 27)) * 0x94D049BB133111EB
	return z ^ (z >> 31)
}

// Intn returns a value in [0,n).
func (r *Rand) Intn(n int) int {
	if n <= 0 {
		return 0
	}
	return int(r.Uint64() % uint64(n))
}

// Range returns a value in [lo,hi].
func (r *Rand) Range(lo, hi int) int { return lo + r.Intn(hi-lo+1) }

func (r *Rand) Bool() bool { return r.Uint64()&1 == 1 }

// Chance returns true with probability num/den.
func (r *Rand) Chance(num, den int) bool { return r.Intn(den) < num }

func (r *Rand) Bytes(n int) []byte {
	b := make([]byte, n)
	for i := 0; i < n; i += 8 {
		v := r.Uint64()
		for j := 0; j < 8 && i+j < n; j++ {
			b[i+j] = byte(v >> (8 * uint(j)))
		}
	}
	return b
}

const alnum = "abcdefghijklmnopqrstuvwxyzABCDEFGHIJKLMNOPQRSTUVWXYZ0123456789"

func (r *Rand) Alnum(n int) string {
	b := make([]byte, n)
	for i := range b {
		b[i] = alnum[r.Intn(len(alnum))]
	}
	return string(b)
}

func (r *Rand) PickInt(xs ...int) int { return xs[r.Intn(len(xs))] }

func (r *Rand) PickStr(xs ...string) string { return xs[r.Intn(len(xs))] }

// Perm returns a random permutation of [0,n).
func (r *Rand) Perm(n int) []int {
	p := make([]int, n)
	for i := range p {
		p[i] = i
	}
	for i := n - 1; i > 0; i-- {
		j := r.Intn(i + 1)
		p[i], p[j] = p[j], p[i]
	}
	return p
}

// Fork derives an independent stream.
func (r *Rand) Fork() *Rand { return NewRand(r.Uint64()) }
