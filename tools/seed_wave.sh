#!/bin/bash
# usage: tools/seed_wave.sh <wave-dir> <Cxx> [extra seed_eval args]  — evaluates <wave-dir>/<Cxx>/out as the next seeded change of Cxx
wave=$1; p=$2; shift 2
cd "$(dirname "$(readlink -f "$0")")/.."
src=$wave/$p/out
n=1; while [ -d seeded/$p-m$n ]; do n=$((n+1)); done
if [ -f $src/.sid ]; then sid=$(cat $src/.sid); else sid=$p-m$n; echo $sid > $src/.sid; fi
pkg=$(python3 -c "import json;print(json.load(open('$src/meta.json'))['demo']['package_dir'])")
rx=$(python3 -c "import json;print(json.load(open('$src/meta.json'))['demo']['run'])")
mkdir -p .run/seedwave
python3 tools/seed_eval.py $sid $p $src "$pkg" "$rx" --wt "$@" > .run/seedwave/$sid.log 2>&1
echo "$sid: $(grep -m1 '"caught"' .run/seedwave/$sid.log) demo_without=$(grep -m1 demo_without_patch .run/seedwave/$sid.log) demo_with=$(grep -m1 demo_with_patch .run/seedwave/$sid.log) missing=$(grep -A1 -m1 baseline_tests_missing .run/seedwave/$sid.log | tr -d '\n')"
