#!/bin/bash
# usage: tools/mkscratch.sh c04   -> /verif/.scratch/c04/harness : a harness module that contains only props/c04*.go
# (symlinks into /verif/harness), so several people can build their own worker without breaking each other.
set -e
id="$1"; [ -n "$id" ] || { echo "usage: $0 cXX"; exit 2; }
S=/verif/.scratch/$id/harness
mkdir -p $S/props $S/cmd
rm -f $S/props/*.go
ln -sfn /verif/harness/lab $S/lab
ln -sfn /verif/harness/cmd/vworker $S/cmd/vworker
for f in /verif/harness/props/${id}*.go /verif/harness/props/common*.go; do [ -e "$f" ] && ln -sf $f $S/props/; done
[ -e $S/props/doc.go ] || echo "package props" > $S/props/doc.go
sed -e 's/^module .*/module verif\/harness/' /repo/go.mod > $S/go.mod
printf '\nrequire mosn.io/mosn v0.0.0\nrequire github.com/anishathalye/porcupine v1.3.0\nreplace mosn.io/mosn => /repo\n' >> $S/go.mod
cp /repo/go.sum $S/go.sum
echo "scratch module: $S"
echo "build:  cd $S && GOFLAGS=-mod=mod GOPROXY=off GOSUMDB=off GOTOOLCHAIN=local go build -tags verif [-race] -o ../vworker ./cmd/vworker"
echo "run:    cd /verif/.scratch/$id && ./vworker ${id}-<job> --property ${id^^} --tier quick --seed 1 --out out-<job> && python3 -m json.tool out-<job>/result.json | head -80"
