#!/usr/bin/env python3
"""Confirm a seeded change and run our check against it.
usage: tools/seed_eval.py <seed-id> <Cxx> <srcdir> <demo-pkg-dir> <demo-run-regex> [--tier quick] [--skip-confirm] [--wt]
  --wt: run the check against a patched scratch worktree (VERIF_REPO / VERIF_SCRATCH) instead of patching /repo, so that several
        evaluations can run side by side and /repo and the committed evidence stay untouched
  srcdir contains patch.diff, demo_test.go, meta.json (from the helper).
1. scratch worktree of /repo HEAD: demo passes without the patch, fails with it; touched packages' baseline tests still pass
2. apply the patch to /repo, run ./check Cxx, undo
3. write /verif/seeded/<seed-id>/ (patch.diff, demo, meta.json with what was run and whether the check caught it)
"""
import json, os, re, shutil, subprocess, sys
sid, prop, src, demopkg, demorx = sys.argv[1:6]
tier = "quick"
if "--tier" in sys.argv:
    tier = sys.argv[sys.argv.index("--tier") + 1]
skip = "--skip-confirm" in sys.argv
usewt = "--wt" in sys.argv
env = dict(os.environ, GOFLAGS="-mod=mod", GOPROXY="off", GOSUMDB="off", GOTOOLCHAIN="local")
def sh(cmd, cwd=None, timeout=3000):
    p = subprocess.run(cmd, shell=True, cwd=cwd, env=env, capture_output=True, text=True, timeout=timeout)
    return p.returncode, p.stdout + p.stderr
out = {"seed": sid, "property": prop, "ran": []}
patch = os.path.join(src, "patch.diff")
wt = "/tmp/seedwt-" + sid
if not skip:
    sh("git -C /repo worktree remove --force %s" % wt)
    rc, o = sh("git -C /repo worktree add -q %s HEAD" % wt)
    assert rc == 0, o
    try:
        demo_dst = os.path.join(wt, demopkg, "zz_seed_demo_test.go")
        shutil.copy(os.path.join(src, "demo_test.go"), demo_dst)
        rc0, o0 = sh("go test -vet=off -count=1 -run '%s' ./%s/" % (demorx, demopkg), cwd=wt)
        out["demo_without_patch"] = "PASS" if rc0 == 0 else "FAIL"
        rc, o = sh("git apply --3way %s || git apply %s" % (patch, patch), cwd=wt)
        out["patch_applies"] = (rc == 0)
        if rc != 0:
            out["apply_error"] = o[-800:]
        rc1, o1 = sh("go test -vet=off -count=1 -run '%s' ./%s/" % (demorx, demopkg), cwd=wt)
        out["demo_with_patch"] = "PASS" if rc1 == 0 else "FAIL"
        out["demo_fail_excerpt"] = "\n".join([l for l in o1.split("\n") if "FAIL" in l or "Error" in l or "want" in l][:8])
        os.remove(demo_dst)
        # touched packages: baseline tests
        rc, files = sh("git diff --name-only HEAD", cwd=wt)
        pkgs = sorted(set("./" + os.path.dirname(f) + "/" for f in files.split() if f.endswith(".go")))
        out["touched_packages"] = pkgs
        p = subprocess.run(["go", "test", "-json", "-vet=off", "-count=1", "-timeout", "20m"] + pkgs, cwd=wt, env=env, capture_output=True, text=True)
        passed = set()
        for l in p.stdout.split("\n"):
            try:
                e = json.loads(l)
            except Exception:
                continue
            if e.get("Action") == "pass" and e.get("Test"):
                passed.add(e["Package"] + "::" + e["Test"])
        base = json.load(open("/root/.vp/BASELINE.json"))["stable_pass"]
        want = [t for t in base if any(t.split("::")[0] == "mosn.io/mosn/" + pk.strip("./") for pk in pkgs)]
        missing = [t for t in want if t not in passed]
        out["baseline_tests_in_touched_packages"] = len(want)
        out["baseline_tests_missing_with_patch"] = missing
    finally:
        if not usewt:
            sh("git -C /repo worktree remove --force %s" % wt)
if usewt:
    scr = "/tmp/seedscr-" + sid
    try:
        if skip:
            sh("git -C /repo worktree remove --force %s" % wt)
            rc, o = sh("git -C /repo worktree add -q %s HEAD" % wt)
            assert rc == 0, o
            rc, o = sh("git apply %s" % patch, cwd=wt)
            assert rc == 0, "cannot apply: " + o
        rc, o = sh("git status --porcelain", cwd=wt)
        assert o.strip() != "", "worktree carries no change"
        env2 = dict(env, VERIF_REPO=wt, VERIF_SCRATCH=scr)
        p = subprocess.run("./check %s --tier %s" % (prop, tier), shell=True, cwd="/verif", env=env2, capture_output=True, text=True, timeout=7200)
        rc, o = p.returncode, p.stdout + p.stderr
        vio = [l for l in o.split("\n") if l.startswith("VIOLATION") or l.strip().startswith("signature:")]
        out["check_cmd"] = "VERIF_REPO=<patched scratch worktree> ./check %s --tier %s" % (prop, tier)
        out["check_exit"] = rc
        out["check_violations"] = vio[:20]
        out["caught"] = (rc == 1 and any(l.startswith("VIOLATION") for l in vio))
        if rc not in (0, 1):
            out["check_tail"] = o[-1500:]
    finally:
        sh("git -C /repo worktree remove --force %s" % wt)
        shutil.rmtree(scr, ignore_errors=True)
# run our check with the patch applied to /repo
rc, o = (0, "") if usewt else sh("git -C /repo status --porcelain")
assert o.strip() == "", "repo not clean: " + o
if not usewt:
    rc, o = sh("git -C /repo apply --3way %s || git -C /repo apply %s" % (patch, patch))
    assert rc == 0, "cannot apply to /repo: " + o
try:
  if not usewt:
    sh("git -C /repo reset -q")  # --3way stages; keep the index clean
    rc, o = sh("./check %s --tier %s" % (prop, tier), cwd="/verif", timeout=7200)
    vio = [l for l in o.split("\n") if l.startswith("VIOLATION") or l.strip().startswith("signature:")]
    out["check_cmd"] = "./check %s --tier %s" % (prop, tier)
    out["check_exit"] = rc
    out["check_violations"] = vio[:20]
    out["caught"] = (rc == 1 and any(l.startswith("VIOLATION") for l in vio))
finally:
  if not usewt:
    sh("git -C /repo checkout -- . && git -C /repo reset -q && git -C /repo clean -fdq pkg cmd")
    rc, o = sh("git -C /repo status --porcelain")
    assert o.strip() == "", "repo not clean after undo: " + o
# restore the evidence of the unchanged tree later (caller reruns the check)
dst = os.path.join("/verif/seeded", sid)
os.makedirs(dst, exist_ok=True)
if os.path.abspath(src) != os.path.abspath(dst):
    shutil.copy(patch, os.path.join(dst, "patch.diff"))
if os.path.abspath(src) != os.path.abspath(dst) and os.path.exists(os.path.join(src, "demo_test.go")):
    shutil.copy(os.path.join(src, "demo_test.go"), os.path.join(dst, "demo_test.go.txt"))
meta = {}
mp = os.path.join(src, "meta.json")
if os.path.abspath(src) == os.path.abspath(dst):
    mp = os.path.join(dst, "meta.json")
if os.path.exists(mp):
    try:
        meta = json.load(open(mp))
    except Exception:
        meta = {"raw": open(mp).read()[:2000]}
old_meta_p = os.path.join(dst, "meta.json")
if skip and os.path.exists(old_meta_p):
    # re-evaluation after a check was strengthened: keep the confirmation results and the earlier verdict
    prev = json.load(open(old_meta_p)).get("evaluation", {})
    merged = dict(prev)
    hist = prev.get("earlier_runs", [])
    hist.append({k: prev.get(k) for k in ("check_cmd", "check_exit", "check_violations", "caught")})
    merged.update(out)
    merged["earlier_runs"] = hist
    out = merged
meta["evaluation"] = out
meta["demo_package_dir"] = demopkg
meta["demo_run_regex"] = demorx
json.dump(meta, open(os.path.join(dst, "meta.json"), "w"), indent=1)
print(json.dumps(out, indent=1)[:3000])
