#!/usr/bin/env python3
"""Regenerate /verif/MANIFEST.json from jobs.py + the per-property texts below."""
import json, os, subprocess, sys
V = os.path.dirname(os.path.dirname(os.path.abspath(__file__)))
sys.path.insert(0, V)
from jobs import JOBS
from manifest_meta import META, ENGINES, NOT_APPLICABLE_REASON

props = [json.loads(l) for l in open(os.path.join(V, "properties.jsonl"))]
hook_commits = subprocess.run(["git", "-C", "/repo", "log", "--format=%h %s", "--grep=^verif hooks"], capture_output=True, text=True).stdout.strip().split("\n")
checks = []
na = []
for p in props:
    pid = p["id"]
    if pid in JOBS and pid in META:
        m = META[pid]
        checks.append({
            "property_id": pid,
            "quick_cmd": "./check %s --tier quick" % pid,
            "thorough_cmd": "./check %s --tier thorough" % pid,
            "evidence_file": "/verif/evidence/%s.json" % pid,
            "replay_cmd_template": "./check %s --replay {path}" % pid,
            "engine": m["engine"],
            "level_claimed": {"category": "exploration", "text": m["text"], "design_ref": m["design_ref"]},
            "level_note": m["note"],
            "technique": m["technique"],
        })
    else:
        na.append({"property_id": pid, "reason": NOT_APPLICABLE_REASON.get(pid, "check not built yet (the technique applies, see DESIGN.md; work in progress)")})
man = {
    "version": 1,
    "setup_cmd": "./check --setup",
    "hooks": {
        "guard": "verif",
        "enable": "go build -tags verif; the harness module (harness/go.mod, regenerated from /repo/go.mod on every run) replaces mosn.io/mosn by /repo, so /repo's current working tree is compiled with the tag on",
        "baseline_off_cmd": "cd /repo && GOFLAGS=-mod=mod GOPROXY=off GOSUMDB=off GOTOOLCHAIN=local go test -vet=off -count=1 -timeout 25m ./...",
        "source_commits": [c.split(" ")[0] for c in hook_commits if c],
        "add_only": True,
    },
    "engines": ENGINES,
    "checks": checks,
    "notes": "Runtime monitoring only: every check runs the real mosn code (in-tree packages linked into harness/cmd/vworker, or the real binary) under generated/hostile/steered workloads while monitors observe. Verdicts: held on what was observed / VIOLATION with replay file / exit 2 = the check itself observed too little. Known findings: known_findings.json.",
    "not_applicable": na,
}
json.dump(man, open(os.path.join(V, "MANIFEST.json"), "w"), indent=1)
print("checks:", [c["property_id"] for c in checks], "not_applicable:", [n["property_id"] for n in na])
