#!/usr/bin/env python3
"""Regenerate the generated tables of DESIGN.md (between BEGIN/END markers) from known_findings.json and seeded/*/meta.json."""
import json, os, re, glob
V = os.path.dirname(os.path.dirname(os.path.abspath(__file__)))
kf = json.load(open(os.path.join(V, "known_findings.json")))["findings"]

def cell(s, n=400):
    s = " ".join(str(s).split()).replace("|", "\\|")
    return s if len(s) <= n else s[: n - 1] + "…"

out = []
out.append("| property | status | signature | commit | what failed |")
out.append("|---|---|---|---|---|")
for f in sorted(kf, key=lambda f: (f["property"], f["status"], f["signature"])):
    what = f.get("line") or f.get("what", "")
    what = re.sub(r"^fixed: property=C\d+ [0-9a-f]+ ", "", what)
    if f["status"] == "known":
        what = f.get("what", "") + " — not repaired: " + f.get("why_not_fixed", "")
    out.append("| %s | %s | `%s` | %s | %s |" % (f["property"], f["status"], f["signature"], f.get("commit", "–"), cell(what, 700)))
findings = "\n".join(out)

out = []
out.append("| seeded change | what it changes (needs) | first run of the quick check | after strengthening | signatures reported |")
out.append("|---|---|---|---|---|")
for d in sorted(glob.glob(os.path.join(V, "seeded", "*"))):
    mp = os.path.join(d, "meta.json")
    if not os.path.exists(mp):
        continue
    m = json.load(open(mp))
    ev = m.get("evaluation", {})
    runs = ev.get("earlier_runs", [])
    first = runs[0] if runs else ev
    def verdict(r):
        if r.get("caught"):
            return "caught"
        if r.get("check_exit") == 2:
            return "not caught (check reported itself broken: exit 2)"
        return "not caught"
    fv = verdict(first)
    av = "–" if not runs else verdict(ev)
    note = m.get("note_first_run", "")
    if note:
        fv += " (" + note + ")"
    sigs = [re.sub(r"^\s*signature:\s*", "", l) for l in ev.get("check_violations", []) if "signature:" in l]
    out.append("| %s | %s Needs: %s | %s | %s | %s |" % (os.path.basename(d), cell(m.get("summary", ""), 420), cell(m.get("needs", ""), 300), fv, av, cell("; ".join(sigs[:4]), 300)))
seeded = "\n".join(out)

p = os.path.join(V, "DESIGN.md")
s = open(p).read()
for name, body in (("findings", findings), ("seeded", seeded)):
    b, e = "<!-- BEGIN:%s -->" % name, "<!-- END:%s -->" % name
    if b in s and e in s:
        i, j = s.index(b) + len(b), s.index(e)
        s = s[:i] + "\n" + body + "\n" + s[j:]
    else:
        print("marker missing:", name)
open(p, "w").write(s)
print("tables regenerated: %d findings, %d seeded changes" % (len(kf), len(glob.glob(os.path.join(V, "seeded", "*/meta.json")))))
