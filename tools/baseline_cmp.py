#!/usr/bin/env python3
"""Run go test (hooks OFF) for the given /repo packages (default ./...) and report every BASELINE stable_pass test
of those packages that did not pass.  usage: tools/baseline_cmp.py [./pkg/router/ ...]"""
import json, os, subprocess, sys
pk = sys.argv[1:] or ["./..."]
env = dict(os.environ, GOFLAGS="-mod=mod", GOPROXY="off", GOSUMDB="off", GOTOOLCHAIN="local")
p = subprocess.run(["go", "test", "-json", "-vet=off", "-count=1", "-timeout", "25m"] + pk, cwd="/repo", env=env, capture_output=True, text=True)
passed, pkgs = set(), set()
for l in p.stdout.split("\n"):
    try:
        e = json.loads(l)
    except Exception:
        continue
    pkgs.add(e.get("Package"))
    if e.get("Action") == "pass" and e.get("Test"):
        passed.add(e["Package"] + "::" + e["Test"])
base = json.load(open("/root/.vp/BASELINE.json"))["stable_pass"]
want = [t for t in base if t.split("::")[0] in pkgs]
missing = [t for t in want if t not in passed]
print("packages run: %d, baseline tests in them: %d, missing: %d" % (len(pkgs), len(want), len(missing)))
for m in missing:
    print("  MISSING", m)
sys.exit(1 if missing else 0)
