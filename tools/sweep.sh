#!/bin/bash
# usage: tools/sweep.sh <tier> <seed> [props...]  — runs the checks sequentially, one summary line each
tier=$1; seed=$2; shift 2
props="$@"; [ -z "$props" ] && props="C01 C02 C03 C04 C05 C06 C07 C08 C09 C10 C11 C12 C13 C14 C15 C16 C17 C18 C19 C20"
cd "$(dirname "$(readlink -f "$0")")/.."
mkdir -p .run/sweeps
for p in $props; do
  s=$(date +%s)
  VERIF_SEED=$seed ./check $p --tier $tier > .run/sweeps/$p-$tier-$seed.log 2>&1
  rc=$?
  e=$(date +%s)
  echo "$p tier=$tier seed=$seed exit=$rc wall=$((e-s))s $(grep -c '^VIOLATION' .run/sweeps/$p-$tier-$seed.log) violations $(grep -c '^KNOWN-FINDING' .run/sweeps/$p-$tier-$seed.log) known $(grep -o 'inconclusive=[0-9]*' .run/sweeps/$p-$tier-$seed.log | head -1)"
done
