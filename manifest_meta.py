"""Texts for MANIFEST.json (see tools/gen_manifest.py)."""

ENGINES = [
    {"name": "vworker", "path": "harness/cmd/vworker", "serves_properties": [],
     "kind_free_text": "Go worker binary (built with -tags verif, most jobs with -race) linking /repo's packages; one sub-command per workload+monitor; driven by ./check which merges result files, matches known findings and writes evidence"},
]

NOT_APPLICABLE_REASON = {}

META = {
    "C16": {
        "engine": "vworker",
        "design_ref": "DESIGN.md §3 C16",
        "technique": "schedule steering through hook points (all 2-/3-operation interleavings) + stress with own-bit assertions + porcupine linearizability check of recorded histories + scripted-session pacing of the real health checker against a threshold automaton; race detector as finder",
        "text": "Exploration with an exhaustive sub-space: every load/store-granularity interleaving of 2 and 3 concurrent Set/Clear operations on different conditions of one address is produced deterministically through the verif hook points and the word is checked against a bitset register; 5e6+ stressed operations assert each writer's own bit; thousands of short recorded histories are checked for linearizability with porcupine; the real health checker is paced by a scripted session through every ok/fail sequence of length 9 (12 thorough) plus sampled sequences with timeouts for all thresholds in (1..3)^2 and its callbacks are compared with the threshold automaton.",
        "note": "Trusts the Go race detector/atomics, porcupine v1.3.0 and the hook package; interleavings are enumerated at load/store granularity of the flag word only; timeouts in the threshold lab are produced by real (15 ms) timers, a mismatch must reproduce 3/3 alone before it counts.",
    },
}
