"""Texts for MANIFEST.json (see tools/gen_manifest.py)."""

ENGINES = [
    {"name": "vworker", "path": "harness/cmd/vworker", "serves_properties": [],
     "kind_free_text": "Go worker binary (built with -tags verif, most jobs with -race) linking /repo's packages; one sub-command per workload+monitor; driven by ./check which merges result files, matches known findings and writes evidence"},
]

NOT_APPLICABLE_REASON = {}

META = {
    "C16": {
        "engine": "vworker",
        "design_ref": "DESIGN.md §3 C16",
        "technique": "schedule steering through hook points (all 2-/3-operation interleavings) + stress with own-bit assertions + porcupine linearizability check of recorded histories + scripted-session pacing of the real health checker against a threshold automaton; race detector as finder",
        "text": "Exploration with an exhaustive sub-space: every load/store-granularity interleaving of 2 and 3 concurrent Set/Clear operations on different conditions of one address is produced deterministically through the verif hook points and the word is checked against a bitset register; 5e6+ stressed operations assert each writer's own bit; thousands of short recorded histories are checked for linearizability with porcupine; the real health checker is paced by a scripted session through every ok/fail sequence of length 9 (12 thorough) plus sampled sequences with timeouts for all thresholds in (1..3)^2 and its callbacks are compared with the threshold automaton.",
        "note": "Trusts the Go race detector/atomics, porcupine v1.3.0 and the hook package; interleavings are enumerated at load/store granularity of the flag word only; timeouts in the threshold lab are produced by real (15 ms) timers, a mismatch must reproduce 3/3 alone before it counts.",
    },
}

META["C05"] = {
    "engine": "vworker",
    "design_ref": "DESIGN.md §3 C05",
    "technique": "boundary oracle (membership / health) over every policy x all 2^n health patterns; version-labelled host sets under concurrent replacement checked as a versioned register (interval check + porcupine); race detector with anchor filter on the snapshot publication",
    "text": "Exploration with an exhaustive sub-space: all eight policies, plain and under the subset balancer, sizes 0..8 with ALL 2^n health patterns x 5 weight shapes (random patterns for 17 and 40 hosts) x 40 (200) picks each with retry re-entry, forged re-entry indices, hash keys and perturbed gauges: every answer must be a member, healthy if a healthy member exists, nil only if none is. Concurrency: 8 readers take snapshots through the real cluster manager while a writer replaces version-labelled host sets (~1.5e6 lookups quick): the snapshot must be single-versioned, the answer must belong to that snapshot and its version must lie between the last version published before the call and the last one started before the return; sampled histories also go through porcupine; append/remove are checked sequentially.",
    "note": "Health is set through Host.SetHealthFlag (shared word per address); concurrency oracle judges membership/version only (health flips under concurrency are racy by nature and are not judged); trusts Go's race detector and porcupine.",
}
META["C06"] = {
    "engine": "vworker",
    "design_ref": "DESIGN.md §3 C06",
    "technique": "exhaustive enumeration of the random draw through an injected scripted rand source (verif accessor) with a storage-order-independent counting oracle (subset-sum explainability + zero-weight rule); all-window lag bound of weighted round-robin via max-min of prefix functions",
    "text": "Exploration with exhaustive sub-spaces: for 400 (3000) weighted-cluster configurations (1..8 clusters, weights incl. 0/1/dominant, totals power of two or not, <= 4096) the WHOLE draw space [0,total) is enumerated 6 (16) times per configuration on fresh rule instances (map iteration order varies per call); each answer must be a configured cluster of non-zero weight and must be explainable by some storage order in which every cluster owns exactly weight(c) consecutive draw values. WRR: 300 (3000) weight vectors in 1..128, up to 6000 (40000) picks each, the bound |n_i/w_i-n_j/w_j| <= 1/w_i+1/w_j is checked for every window and every pair.",
    "note": "The storage order of the Go map cannot be observed, so the draw oracle is existential over orders (sound, never a false alarm; it misses deviations that some other order would explain — equal-weight configurations cannot expose an off-by-one). Trusts math/rand's Intn derivation from Int63 (self-checked at start).",
}

META["C01"] = {
    "engine": "vworker",
    "design_ref": "DESIGN.md §3 C01",
    "technique": "differential against independent reference framers/parsers (byte identity with the request-id field masked, aliasing canary on the reused read buffer, reference decode of mutated frames); end-to-end recording peers through a running proxy",
    "text": "Exploration, boundary-directed: per codec (bolt, boltv2, dubbo, dubbo-thrift, tars) 6000 (60000) generated well-formed frames — class/header/body lengths from {0,1,255..257,65535..65537,1 MiB,random}, fixed fields at {0,1,max,random}, request ids at the wrap points, heartbeats/one-way/responses — go through the real Decode/SetRequestId/Encode; checked: byte identity outside the id field, id patched, buffer consumed exactly, encoded buffer and body unchanged after the read buffer is overwritten, and frames mutated through the header/body API re-encode to bytes that an independent parser decodes to exactly the modified content with consistent length fields (or Encode errors).",
    "note": "Reference builders use dubbo-go-hessian2 / apache thrift / TarsGo for payloads; 4 GiB length fields are exercised only as 'announced, not delivered' (C08). Dubbo requests with a non-hessian serialization id are documented as unsupported and not generated.",
}
