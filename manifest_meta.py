"""Texts for MANIFEST.json (see tools/gen_manifest.py)."""

ENGINES = [
    {"name": "vworker", "path": "harness/cmd/vworker", "serves_properties": [],
     "kind_free_text": "Go worker binary (built with -tags verif, most jobs with -race) linking /repo's packages; one sub-command per workload+monitor; driven by ./check which merges result files, matches known findings and writes evidence"},
]

NOT_APPLICABLE_REASON = {}

META = {
    "C16": {
        "engine": "vworker",
        "design_ref": "DESIGN.md §3 C16",
        "technique": "schedule steering through hook points (all 2-/3-operation interleavings) + stress with own-bit assertions + porcupine linearizability check of recorded histories + scripted-session pacing of the real health checker against a threshold automaton; race detector as finder",
        "text": "Exploration with an exhaustive sub-space: every load/store-granularity interleaving of 2 and 3 concurrent Set/Clear operations on different conditions of one address is produced deterministically through the verif hook points and the word is checked against a bitset register; 5e6+ stressed operations assert each writer's own bit; thousands of short recorded histories are checked for linearizability with porcupine; the real health checker is paced by a scripted session through every ok/fail sequence of length 9 (12 thorough) plus sampled sequences with timeouts for all thresholds in (1..3)^2 and its callbacks are compared with the threshold automaton.",
        "note": "Trusts the Go race detector/atomics, porcupine v1.3.0 and the hook package; interleavings are enumerated at load/store granularity of the flag word only; timeouts in the threshold lab are produced by real (15 ms) timers, a mismatch must reproduce 3/3 alone before it counts.",
    },
}

META["C05"] = {
    "engine": "vworker",
    "design_ref": "DESIGN.md §3 C05",
    "technique": "boundary oracle (membership / health) over every policy x all 2^n health patterns; version-labelled host sets under concurrent replacement checked as a versioned register (interval check + porcupine); race detector with anchor filter on the snapshot publication",
    "text": "Exploration with an exhaustive sub-space: all eight policies, plain and under the subset balancer, sizes 0..8 with ALL 2^n health patterns x 5 weight shapes (random patterns for 17 and 40 hosts) x 40 (200) picks each with retry re-entry, forged re-entry indices, hash keys and perturbed gauges: every answer must be a member, healthy if a healthy member exists, nil only if none is. Concurrency: 8 readers take snapshots through the real cluster manager while a writer replaces version-labelled host sets (~1.5e6 lookups quick): the snapshot must be single-versioned, the answer must belong to that snapshot and its version must lie between the last version published before the call and the last one started before the return; sampled histories also go through porcupine; append/remove are checked sequentially.",
    "note": "Health is set through Host.SetHealthFlag (shared word per address); concurrency oracle judges membership/version only (health flips under concurrency are racy by nature and are not judged); trusts Go's race detector and porcupine.",
}
META["C06"] = {
    "engine": "vworker",
    "design_ref": "DESIGN.md §3 C06",
    "technique": "exhaustive enumeration of the random draw through an injected scripted rand source (verif accessor) with a storage-order-independent counting oracle (subset-sum explainability + zero-weight rule); all-window lag bound of weighted round-robin via max-min of prefix functions",
    "text": "Exploration with exhaustive sub-spaces: for 400 (3000) weighted-cluster configurations (1..8 clusters, weights incl. 0/1/dominant, totals power of two or not, <= 4096) the WHOLE draw space [0,total) is enumerated 6 (16) times per configuration on fresh rule instances (map iteration order varies per call); each answer must be a configured cluster of non-zero weight and must be explainable by some storage order in which every cluster owns exactly weight(c) consecutive draw values. WRR: 300 (3000) weight vectors in 1..128, up to 6000 (40000) picks each, the bound |n_i/w_i-n_j/w_j| <= 1/w_i+1/w_j is checked for every window and every pair.",
    "note": "The storage order of the Go map cannot be observed, so the draw oracle is existential over orders (sound, never a false alarm; it misses deviations that some other order would explain — equal-weight configurations cannot expose an off-by-one). Trusts math/rand's Intn derivation from Int63 (self-checked at start).",
}

META["C01"] = {
    "engine": "vworker",
    "design_ref": "DESIGN.md §3 C01",
    "technique": "differential against independent reference framers/parsers (byte identity with the request-id field masked, aliasing canary on the reused read buffer, reference decode of mutated frames); end-to-end recording peers through a running proxy",
    "text": "Exploration, boundary-directed: per codec (bolt, boltv2, dubbo, dubbo-thrift, tars) 6000 (60000) generated well-formed frames — class/header/body lengths from {0,1,255..257,65535..65537,1 MiB,random}, fixed fields at {0,1,max,random}, request ids at the wrap points, heartbeats/one-way/responses — go through the real Decode/SetRequestId/Encode; checked: byte identity outside the id field, id patched, buffer consumed exactly, encoded buffer and body unchanged after the read buffer is overwritten, and frames mutated through the header/body API re-encode to bytes that an independent parser decodes to exactly the modified content with consistent length fields (or Encode errors).",
    "note": "Reference builders use dubbo-go-hessian2 / apache thrift / TarsGo for payloads; 4 GiB length fields are exercised only as 'announced, not delivered' (C08). Dubbo requests with a non-hessian serialization id are documented as unsupported and not generated.",
}

META["C07"] = {
    "engine": "vworker",
    "design_ref": "DESIGN.md §3 C07",
    "technique": "self-differential (chunked vs whole delivery) through the real stream connection's Dispatch plus an independent reference framer for frame boundaries and buffer accounting; exhaustive 1-cut/2-cut enumeration; prefix-exhaustive probing of protocol auto-detection",
    "text": "Exploration with exhaustive sub-spaces: per codec 50 (400) streams of 1..6 generated frames are dispatched through the real xprotocol stream connection (server side incl. heartbeats; client side with registered streams) whole, with EVERY single cut (streams <= 600 B), EVERY pair of cuts (<= 120 B), byte-wise, and 6 random multi-cuts near frame boundaries: delivered (id, header view, body) sequences must equal whole delivery and the reference frame list; after every Dispatch the buffer must hold exactly the incomplete tail by the reference framer; a Dispatch that does not return is a violation. Auto-detection: every prefix (<= 400 B and the complete stream) of valid streams of 7 protocols, 3x each: Again* then Success(p) forever, never Failed.",
    "note": "Component level uses a minimal fake api.Connection (records writes/closes); HTTP/1 and HTTP/2 extraction is exercised end-to-end through the running proxy (scenario engine) rather than by direct Dispatch.",
}
META["C15"] = {
    "engine": "vworker",
    "design_ref": "DESIGN.md §3 C15",
    "technique": "set-algebra reference model of subset selection + fallback, and builder-vs-builder differential (filtering vs pre-indexed) over reachable answer sets, HostNum and IsExistsHosts",
    "text": "Exploration with an exhaustive small universe: c15-model runs 20320 (203200) configurations — 0..12 hosts with partial/overlapping metadata over 3 keys x 3 values, all 127 selector sets x 3 fallback policies, default subsets incl. unmatched — each against 190 criteria (every key absent/x/y/z/unknown, unknown keys, nil); c15-exh enumerates completely a 2-key x 2-value universe (all host multisets up to 3 (5) shapes, all selector sets incl. empty selectors, policies, default subsets, 34 criteria). Both real builders are judged against the model and against each other; answer sets are collected over 8*|S| round-robin picks.",
    "note": "All hosts healthy (health is C05). Nil/typed-nil criteria and empty criteria with an empty selector are judged by the builder differential only (statement leaves them open). Trusts router.NewMetadataMatchCriteriaImpl for building sorted criteria.",
}

META["C08"] = {
    "engine": "vworker",
    "design_ref": "DESIGN.md §3 C08",
    "technique": "hostile-input monitors: recover() around the real decoders and the real stream-connection Dispatch, progress watchdog, heap-allocation meter (runtime/metrics), checkptr/bounds via the -race build, process-fatal attribution to the last logged input; probe-client liveness through a running proxy",
    "text": "Exploration with an exhaustive corruption grid: per codec 12 (60) valid base frames x {every offset of the first 96 bytes x width 1/2/4 x value 0,1,2,3,max,max/2,orig+-1; all 256 values of each of the first 32 bytes; truncation at every offset; 40 splices} + random inputs (3.6e5 inputs quick) go through XProtocol.Decode, the matcher and the real xprotocol stream connection (race build => checkptr). HTTP/2: valid connection streams built with x/net/http2 corrupted the same way plus per-frame length/type/flags/stream-id grids and a CONTINUATION flood, through the real HTTP/2 server stream connection; the HPACK decoder alone on corrupted blocks (1.2e6 inputs quick). Violations: a panic escaping, a call that never returns (20 s without progress), allocation beyond 64x input + 4 MiB for one call, 'need more' that consumed bytes, a frame that consumed nothing, any process-fatal event.",
    "note": "Inputs are written to disk (pwrite) before each call so a fatal is attributable. ASan/MSan/valgrind add nothing for pure-Go decoders and are not used. Third-party parsers (hessian, thrift, TarsGo) are inside the judged calls because MOSN's decoders delegate to them.",
}

META["C03"] = {
    "engine": "vworker",
    "design_ref": "DESIGN.md §3 C03, §2.4",
    "technique": "event-log oracle at the client boundary (exactly one terminal outcome per request token) over a running proxy with scripted upstream fault plans, plus schedule steering through hook points that parks timer callbacks / upstream response / upstream resets before their CAS and releases them in every order; hang = no terminal event AND the proxy still counts the request active",
    "text": "Exploration with a bounded-exhaustive steered sub-space: a real in-process MOSN with HTTP/1, bolt and HTTP/2 listeners, two scripted upstream hosts per protocol plus empty / dead / unknown clusters; ~530 (~8600) requests per run over routes {plain, retry policy with per-try timeout, unknown cluster, empty cluster, dead host, no route} x per-attempt upstream plans {reply, 5xx, 4xx, delayed, stall, close, RST, half response, late reply, large body} x {answered, abandoned by the client}, 8 concurrent clients per protocol. Steered: one request at a time with plans timed to collide; the goroutines of the per-try timer, the global timer, the upstream response and the first two upstream resets are parked just before their compare-and-swap and released in 12 of the 120 orders per (protocol, plan) in quick, all 120 in thorough. Oracle: exactly one response per non-abandoned request; two responses, or no terminal event for 15 s (all timeouts <= 1.5 s) while MOSN still counts the request active, are violations; request gauges must return to zero.",
    "note": "Steering only delays goroutines at existing preemption points (never holds them forever): every produced order is a legal schedule. The 15 s client watchdog is not a verdict by itself — it needs corroboration from MOSN's own active-request gauge. Reset reasons needing kernel-level faults (write timeout) are produced only through close/RST by the peer.",
}

META["C04"] = {
    "engine": "vworker",
    "design_ref": "DESIGN.md §3 C04",
    "technique": "differential against an executable reference routing model written from the documented precedence (MatchRoute / MatchAllRoutes on real routers), near-exhaustive small domain alphabets; concurrent lookups under router-manager updates compared with single-threaded answers (race build)",
    "text": "Exploration with an exhaustive sub-space: every set of 1..3 (1..4) domains of a 48-domain alphabet (exact, wildcard, ported, ':*', default, mixed case) against 11 host names x 4 ports + absent Host; random configurations of 1..9 virtual hosts with 0..8 ordered routes mixing path / prefix / regex / header / method / variable / RPC rules (~9.4e5 judged lookups quick); duplicate domains must be rejected. Determinism: 16 goroutines repeat ~270 probes through the router wrapper while a writer updates OTHER router names and adds / removes routes on a scratch virtual host; update-and-back and remove-then-re-add are compared with fresh builds.",
    "note": "Zones the statement leaves open (port-less domain vs ported request, ':*' vs absent port, class of '*:80', exact-path letter case, unanchored regex, DSL rules) are generated only where all 16 readings agree, or not at all. Trusts Go regexp and the variable / header-map packages.",
}
META["C13"] = {
    "engine": "vworker",
    "design_ref": "DESIGN.md §3 C13",
    "technique": "reference TLS policy model (context selection + trust matrix) judged over real loopback handshakes between Go's crypto/tls peers and MOSN's TLS context managers, and through a running in-process MOSN (TLS listener / TLS cluster, inspector)",
    "text": "Exploration with exhaustive matrices: all 2^4 flag combinations (verify_client, require_client_cert, insecure_skip, inspector) x 7 peer-certificate kinds (none, self-signed, other CA, other CA with same DN, expired, right CA without key, right CA) and flags x 6 upstream certificate kinds x server_name set/empty; seeded sampling of 1..5 overlapping contexts (static or SDS-fed, ready / late / disabled; names a.test, *.test, *.a.test; ALPN over {h2, http/1.1}) x ClientHello grid (SNI absent / upper case / deeper labels / protocol id, ALPN lists, TLS 1.0-1.3); ~5.9e3 handshakes quick. The certificate seen, the handshake result and an application-data round trip are compared with the model.",
    "note": "crypto/tls and crypto/x509 are the reference peers. A selection case is judged only when all readings of 'wildcard label' and 'certificate names' agree; client auth is judged only under verify_client AND require_client_cert (other modes are counted). Odd batches run with GODEBUG=tls13=1 because the forked TLS stack enables TLS 1.3 only then.",
}
META["C19"] = {
    "engine": "vworker",
    "design_ref": "DESIGN.md §3 C19",
    "technique": "round-trip comparator: load -> dump -> load -> dump with canonical-JSON equality, reflective field-by-field model comparison and an input-leaf-survives check, at codec level (reflection-driven JSON generator over the v2 type graph) and through the real init path in child processes for generated and all shipped sample configurations",
    "text": "Exploration with one exhaustive set: ~1e4 (1.2e6) configurations generated at the JSON level from the struct tags of 28 v2 root types (363 schema fields, 18 custom marshaler pairs, durations, sizes, CIDR, per-filter config, dynamic cluster/router directories, a YAML subset) through Unmarshal/Marshal twice; 320 (16000) generated configurations and EVERY shipped sample under configs/ and examples/ (75 files: 62 loadable, 13 listed as not loadable with reason) through Load -> DefaultInitStage -> Mosn.Init -> dump -> persist -> reload -> dump in child processes. Oracles: second dump equals first up to the order of name-keyed lists; reloaded model equals loaded model field by field; every input value at a path the struct tags understand reappears with equal value and JSON type.",
    "note": "Benign normalisations are an explicit allow-list (N1-N7, S1-S3 at the top of c19_cmp.go, e.g. tls_context folded into tls_context_set, close_graceful alias). Trusts encoding/json, ghodss/yaml, time.ParseDuration, datasize. Children run in private network namespaces when permitted (port clashes are inconclusive otherwise).",
}
META["C20"] = {
    "engine": "vworker",
    "design_ref": "DESIGN.md §3 C20",
    "technique": "per-position marker secrets (positions discovered by reflection over the config type graph) searched in every admin dump endpoint; before/after equality of the non-redacted persisted dump against a twin run; concurrent admin dumps vs file dumps under the race detector with anchors, plus a hook-steered dump between assembling and marshalling",
    "text": "Exploration with an exhaustive sub-space: every subset of the 7 judged TLS-bearing init positions x {struct-built, loaded from JSON} x {static, dynamic cluster files} x {admin dump before / after the first file dump}, plus 400 (12000) seeded histories of runtime updates (listener, cluster, hosts, router, extend, cluster-manager TLS); every case calls the real ConfigDump handler for all 8 endpoint kinds and searches each body for every marker; each case runs twice from Reset() and the forced file dump / inherit bytes must equal the reference run, keep every real key and never contain the placeholder; live objects must deep-equal a pristine rebuild. c20-race: 4 goroutines of admin dumps (one through a loopback HTTP server) against file dumps, race build with anchors, and dumps steered into transferConfig through the verif hook point.",
    "note": "Setter-level feeding mirrors MOSN's init (no real listeners; 'TLS keeps working' is judged at the config-data level). 24 raw-JSON holes that nothing in the tree decodes as a TLS context are generated and counted but not judged.",
}

META["C10"] = {
    "engine": "vworker",
    "design_ref": "DESIGN.md §3 C10, §2.4",
    "technique": "conservation monitors over a running proxy: continuous sign sampling of every breaker resource and *_active gauge, zero / socket-count equality at quiescent points (two equal samples 200 ms apart), and event-triggered threshold trip tests (max_requests, max_retries) with scripted upstreams holding exchanges open",
    "text": "Exploration: a real in-process MOSN whose clusters count all four breaker resources; 3 (thorough: 4, reduced from 12, see DESIGN 7.15) rounds of 240 (288) mixed requests per worker (success, 5xx + retry policy, per-try / global timeouts, upstream close / RST / half response, unknown / empty / dead clusters, abandoned requests; 8 concurrent clients x HTTP/1, bolt, HTTP/2). A side goroutine samples all books every 2 ms (any negative value is a violation); after each round the request-type books (breaker requests / pending / retries, downstream and upstream request_active) must be 0 and upstream connection_active must equal the sockets the scripted upstreams hold; after the peers closed everything connection books must be 0. Threshold tests per protocol: with max_requests=3 exactly 3 requests are held in flight at the upstream (event-triggered, not timed): the resource must read 3, request 4 must be refused, and a new request must be admitted after release; with max_retries=1 a second request's retry must be refused while one retry is in flight and admitted afterwards.",
    "note": "Every cluster has its own upstream servers because MOSN keys connection pools by host address (clusters sharing an address share pools and books by design). Deliberately unsynchronised statistics are read only at quiescence; the sampler judges sign only.",
}

META["C02"] = {
    "engine": "vworker",
    "design_ref": "DESIGN.md §3 C02, §2.4",
    "technique": "unique-token join of call/return events at the client boundary over a running proxy (the upstream echoes the request token into response header and body), under scrambled / late / duplicated / unknown-id replies, resets and retries; component-level monitor on the real client stream connection with the id counter driven across its wrap-around points (verif accessor)",
    "text": "Exploration: 30 (160) waves per protocol of 2..64 concurrent requests over ONE downstream connection (bolt multiplexed client, HTTP/2 reference Transport; HTTP/1.1: 4 pooled connections) through a real MOSN sharing its upstream connections; per-request upstream plans: random delay 0..300 ms (scrambled reply order), reply after the 400 ms timeout on a connection that keeps being used, unknown id, duplicated reply, 5xx, close between replies, retry policy with per-try timeout; every response's header token and body token must equal the sent token, at most one response per call. c02-wrap: 600 (6000) cases on the real xprotocol client stream connection with the id counter pre-set to {0, wrap-k, wrap-3} (2^32 bolt/boltv2, 2^31 tars, 2^64 dubbo) while 1..40 requests are pending; permuted / duplicated / unknown-id reply sequences are dispatched; each stream must receive exactly its own frame once, ids of pending streams must be unique.",
    "note": "Unique tokens make the history unambiguous (O(n log n) join, no search). MOSN-generated error replies carry no token and are not judged for correlation (C03 judges their count).",
}

META["C17"] = {
    "engine": "vworker",
    "design_ref": "DESIGN.md §3 C17, §2.4",
    "technique": "reference action model (rewrites, three-level header mutation order, redirect / direct response, timeout precedence, retry conditions and budget) compared with what a recording upstream saw per attempt and what the client received, over a running proxy; timeout source classified by probe pairs at T/2 and 2T with factor-4 separated candidates; attempts counted per request token",
    "text": "Exploration: a real in-process MOSN with 25 generated route variants per protocol (HTTP/1, HTTP/2, bolt) per batch/seed: prefix / regex path rewrite, host rewrite, request and response header add-append / overwrite / remove at route, virtual-host and router level on overlapping names, redirects (code / path / host / scheme), direct responses with and without body, timeout sources (route vs x-mosn-global-timeout vs the bolt frame's timeout field), retry policies (retry_on, num_retries 1..5, status code lists, per-try timeout, no policy). Each action route is exercised 3 (12) times with random pre-set header values and queries; the upstream's recorded URI / Host / headers and the client's status / Location / body / response headers are compared with the model; redirects and direct responses must never reach an upstream; per retry policy random per-attempt outcome sequences (2xx, 5xx, listed / unlisted code, close, per-try timeout, half response on HTTP/2) are run with a sequential client: attempts <= 1 + budget, retry only under listed conditions, successive attempts on different hosts (round robin over two healthy hosts).",
    "note": "A timeout-source mismatch must reproduce 3/3 before it counts; delays are a factor 2 away from the candidate and candidates a factor 4 apart (400 / 1600 ms). The 60 s default timeout is not exercised. MOSN-generated replies echo the request headers, so 'delivered' is judged by the upstream's body token. bolt status codes are not mapped onto HTTP retry conditions (only the budget is judged for bolt).",
}

META["C14"] = {
    "engine": "vworker",
    "design_ref": "DESIGN.md §3 C14, §2.4",
    "technique": "trace checker over (scripted-filter call log x upstream log x client log) per request token on a running proxy; scripted stream filters registered through the public stream-filter API take their verdict from the request itself, so verdict vectors are enumerated exhaustively per chain shape",
    "text": "Exploration with exhaustive sub-spaces: 10 chain shapes (0..6 receive filters with every phase mix: before-route, after-route, after-choose-host, in scrambled configured order; 0..2 send filters), one shape per batch, each on HTTP/1, bolt and HTTP/2 listeners of a real MOSN. For chains <= 4 EVERY verdict vector over {continue, hijack, direct response with body, TerminateStream(code), termination status, bare stop, re-match once (after-route filters), re-choose once (after-choose-host filters)} is sent (thorough; a seed-rotated third in quick), 800 (6000) sampled vectors for the 6-filter chain. Checked per token: a receive filter runs more than once only if it asked for the re-entry itself (earlier filters are not re-run); first invocations follow phase order and configured order; a request answered or terminated by a filter never reaches an upstream; the client gets exactly the filter's response (status) once, and that response passes every send filter exactly once; undenied requests are forwarded once.",
    "note": "What follows a bare Stop status is not fixed by the statement (the proxy forwards anyway unless the filter also hijacked): such vectors are run and logged but only the order rules are judged. bolt replies built by the proxy carry a bolt status, so the status equality is judged for HTTP only.",
}
META["C18"] = {
    "engine": "vworker",
    "design_ref": "DESIGN.md §3 C18",
    "technique": "differential against the reference implementation golang.org/x/net/http2 (+hpack): HPACK sessions in both directions across table-size changes, frame streams parsed by both framers whole and fragmented, and a raw-frame reference peer keeping a flow-control ledger against the real MOSN HTTP/2 connection objects over loopback in both sending roles",
    "text": "Exploration: c18-hpack ~5.7e4 (2.8e5) evaluations of encoder/decoder sessions over 3..12 header blocks with table-size changes {0,1,4096,65536,...} and SetMaxDynamicTableSize calls between blocks, header lists 0..200 fields (repeated names, empty / 64 KiB values, hostile and Huffman-friendly strings, sensitive flag), MOSN->x/net, x/net->MOSN, and an RFC-written byte stream into both decoders. c18-framer ~1.1e5 (5.5e5) valid frame streams (all frame types, padding, priority, header blocks split over 0..9 CONTINUATION frames incl. empty fragments, frames up to 1 MiB) read by x/net and by MFramer whole and in several fragmentings: type, flags, stream, length, payload and decoded header fields must agree; non-termination is decided by counting buffer accesses. c18-flow 500 (3000) scripted cases with the real network.Connection + stream/http2 + MServerConn/MClientConn as sender: the peer's ledger (updated before each WINDOW_UPDATE it writes) bounds cumulative DATA per stream and per connection, checks MAX_FRAME_SIZE on every DATA frame, body content, header blocks kept contiguous, initial windows {0,1,100,65535,2^31-1}, INITIAL_WINDOW_SIZE changes mid-stream, completion judged only after all needed window was released.",
    "note": "Trusts x/net/http2 v0.23.0. Two zones where the reference has no reading are not judged (its own double table-size update at a block start with entries left; PUSH_PROMISE + CONTINUATION). The only watchdog-based verdict ('stalled with open window') needs: PING ACK proves all frames were processed, every window is open, zero DATA during the stall watchdog, progress resumes only after an unneeded 1-byte WINDOW_UPDATE, 3/3 reproductions; any other watchdog firing is inconclusive.",
}

META["C09"] = {
    "engine": "vworker",
    "design_ref": "DESIGN.md §3 C09, §2.4",
    "technique": "upstream-side per-connection automaton (exclusive lease) and taint tracking (no reuse after an abandoned exchange) over recorded request arrivals, pool books (verif accessors) against the kernel's socket table at quiescent points, and an event-triggered capacity test, all through a running proxy with a harness-registered ping-pong xprotocol",
    "text": "Exploration with a bounded-exhaustive part: a real in-process MOSN with two ping-pong pairings — HTTP/1.1 and 'boltpp' (bolt's wire format registered through the public codec API with pool mode PingPong) — on clusters limited to max_connections=3 (and max_requests=2 for the overflow route). All operation sequences of depth 2 (3 thorough) over {ok, delayed ok, 5xx, stall -> proxy timeout, late reply, close, RST, half response, connect failure, one-way} run sequentially on one downstream connection, plus random sequences of 12..40 operations and 8-way concurrent rounds that force breaker overflow. Checked: a request never arrives on an upstream connection that still has an unanswered request; a request never arrives on a connection whose previous exchange the proxy abandoned (300 ms timeout); at quiescence every pool's total equals the established sockets to that upstream in /proc/net/tcp and idle == total; afterwards 3 concurrent requests are admitted on 3 distinct connections and a 4th is refused while they are in flight.",
    "note": "The automaton counts an exchange as answered from the moment the upstream hands its reply to the socket (counting it after the write returned produced a false 'busy' alarm in an earlier version: the monitor's state must be updated atomically with what it shadows). Multiplexed pools (bolt, HTTP/2) are covered by the conservation checks of C10. GoAway and pool Shutdown are not driven.",
}

META["C11"] = {
    "engine": "vworker",
    "design_ref": "DESIGN.md §3 C11",
    "technique": "process-level monitoring of the real mosn binary: per case a fresh mosn process (3 proxy listeners: HTTP/1.1, HTTP/2, bolt) in front of scripted upstreams; the signal (SIGTERM / SIGHUP) is delivered by the harness when the pivot request has reached a chosen phase (event-triggered from the upstream's event log or from the bytes the client has written) plus a PRNG-chosen delay inside that phase; oracles over the client/upstream event logs (reply carries the request's token), process exit status and time, and listener reachability",
    "text": "Exploration: 13 (38) cases per run, each with its own mosn process: SIGTERM x {HTTP/1.1, HTTP/2, bolt} with the request waiting for a slow upstream; SIGTERM with the request body half on the wire (HTTP/1.1; thorough: bolt, HTTP/2) and with an 8 MB response half written to a slow reader; SIGTERM under a closed-loop client on a long-lived connection (only the request in flight at signal time is owed a reply); SIGHUP with closed-loop clients opening a new connection per request on all three protocols throughout the hand-over (~1800 requests per case: every one must succeed), with a long-lived bolt connection (handed over: every request must succeed), long-lived HTTP/1.1 and HTTP/2 connections (stay with the draining old process: no request the upstream has seen may go unanswered), with a request waiting for the upstream and (thorough) with a body half sent on each protocol - bolt exercises the transfer of a partially received frame with its buffered bytes. After SIGTERM the process must exit by itself with status 0 and nothing may accept on the listener port afterwards; after SIGHUP the old process must exit and the new one must serve. Control cases (same scenario, no signal) guard the scenarios themselves: a failing control is inconclusive.",
    "note": "SIGHUP is only sent once the old process has created its reconfig.sock (one second after start): a signal to a process that has not finished starting is outside the statement. Time bounds (30 s for a reply, 40/60 s for process exit) are watchdogs far above the configured drain (6 s) + graceful timeout (3 s). Known findings: SIGTERM while an HTTP/1.1 or bolt request is still being received loses that request (known_findings.json). Each case takes 10-45 s of wall time (hot upgrade itself ~40 s), cases run 6 at a time.",
}

META["C12"] = {
    "engine": "vworker",
    "design_ref": "DESIGN.md §3 C12",
    "technique": "three-way differential after every runtime update: live objects vs objects freshly built from the dumped configuration vs the harness's reference state of the update history, over a probe set; version-labelled replies of closed-loop clients during host / router swaps",
    "text": "Exploration: a real in-process MOSN; 60 (600) histories of 1..30 runtime updates over {router add / update, add route, remove all routes, cluster add / update / delete, host replace / append / delete, xDS endpoint assignment with 1..3 localities, invalid and no-op updates} applied through the manager entry points the admin debug API and the xDS converters call; after EVERY step the configuration is dumped (InheritMosnconfig: the bytes a restart or hot upgrade loads), parsed, routers are rebuilt from it and compared with the live routers on 30 (host, path) probes, dumped host lists are compared with live host sets, and both with the reference state (last update wins, removed objects are gone, an endpoint assignment is the union of its localities). c12-traffic: 6 closed-loop clients per protocol (HTTP/1, bolt) while a writer swaps their cluster's hosts between two upstream sets and re-submits the router: every request must be answered by an upstream configured at some moment between its call and its return, none may fail.",
    "note": "AddRoute / RemoveAllRoutes resolve their domain argument like a request host; only exact configured domains are generated, where that reading and the literal one agree. A first, unbuildable router configuration is accepted and stored by design (RDS) and cannot be served: reference states that cannot be built are not compared. The HTTP debug API exists only under the build tag mosn_debug and calls the same entry points; it is not driven separately.",
}

# ---- additions made while the checks were strengthened against seeded changes (DESIGN.md §7.5) ----
_ADD = {
    "C01": " End-to-end job c01-e2e: a running MOSN without any rewrite between recording peers — pairings HTTP/1.1->HTTP/1.1, HTTP/2->HTTP/2 and both again through a protocol-detecting (Auto) listener; a hostile request-target list (escaped '/', ' ', UTF-8, '%', '//', '..', '.', trailing '/', empty / plain / escaped / double '?' query, ';' parameters, sub-delims, 1.6 kB, random) x methods x binary bodies up to 1 MiB x generated header fields (empty, spaces, commas, quotes, repeated and mixed-case names) x response status / fields / body; method, target bytes, field multiset (RFC 9110 list equivalence), body hash compared at the upstream and at the client. TCP proxy listener: echo with random write sizes, client burst + immediate close, peer burst + immediate close, 0..1 MiB, payload = f(connection id, offset).",
    "C04": " c04-determinism also churns the probed virtual host itself: a writer alternates two route lists (same matchers, different clusters, bracketed by catch-all routes) through RemoveAllRoutes/AddRoute (manager and Routers API) while 48 readers look the probes up; every answer must be that of a fresh build holding a prefix of one of the two lists (MatchRoute and MatchAllRoutes judged separately).",
    "C06": " The round-robin part covers host sets of 2..8 and (one third) 9..64 hosts incl. nearly equal weights with a light and a heavy host at first / middle / last position. The draw part adds a counting oracle: over K..60 sweeps of the whole draw space the number of selections of a cluster must lie within a 1e-12 Bernstein bound of sweeps x weight.",
    "C07": " One stream in six is a burst of 7..120 frames (incl. 15..17, 31..33, 64, 100). c07-match also walks explicit protocol lists (the stream's protocol at every position among 1..3 others). End-to-end job c07-e2e: 1..40 valid bolt / HTTP/1.1 / HTTP/2 requests written to a running MOSN as one byte stream in PRNG-chosen segmentations (bytewise, tiny / large chunks, few random cuts, head bytewise); the upstream must record each request exactly once with its body, the client must read one reply per request.",
    "C08": " c08-h2 adds two exhaustive grids: padded HEADERS / DATA / PUSH_PROMISE frames (payload length 0..16 x flag combinations of PADDED, PRIORITY, END_HEADERS, END_STREAM x every Pad Length 0..len+2, 255) and HPACK integers (every integer position x boundary values up to 2^64-1, overlong and truncated encodings). End-to-end job c08-e2e: a running MOSN serves 6 probe clients on their own connections and cluster while ~1200 (7000) hostile inputs (the corruption grid over valid requests of the listener's and of the other protocols, cold and after a valid exchange) are delivered to the HTTP/1.1, HTTP/2 and bolt listeners and upstreams answer with corrupted responses; every probe must be answered correctly and the process must survive.",
    "C09": " The capacity tests are event-driven (holders keep their connections 2.5 s; a conviction needs a request refused by the proxy; timing only lets the check abstain) for max_connections = 3 and max_requests = 2, and at every quiescent point the clusters' breaker counters (requests, pending, retries) must read 0.",
    "C10": " One request in ten is answered with a go-away announcement (bolt go-away frame, HTTP/2 GOAWAY, HTTP/1 Connection: close) after which the upstream closes the connection.",
    "C11": " Late-body cases: a bolt request (also 640 KiB with all but 2 KiB buffered) whose remainder is written only after the old process handed the connection over and exited; HTTP/1.1 and HTTP/2 requests whose remainder arrives 7 s after SIGHUP, inside the old process's drain window.",
    "C12": " Hosts carry weights and metadata (one third of the replacements change only the weight or metadata of one host; xDS endpoints carry unset / in-range / out-of-range weights); c12-traffic additionally re-submits the clusters themselves (cluster update, hosts inherited) in a tight loop under traffic.",
    "C14": " 12 chain shapes (two with 3-4 filters of one phase); the verdict alphabet includes a real SendDirectResponse (status through the variable, as the flowcontrol filter does) and filters that ask for re-match / re-choose twice; every vector in which a filter answers is sent again on a route whose retry policy would retry the filter's status.",
    "C16": " One quarter of the threshold sequences run again with the outlier-ejection condition set on the host for a PRNG-chosen stretch: the checker's transitions and 'changed' reports must not depend on it, Host.Health() must.",
    "C17": " Per-try timeout sources (x-mosn-try-timeout alone, with a global timeout header, with a protocol-supplied global timeout) are judged by the number of upstream attempts (first attempt answered after 1200 ms, try timeout 300 ms).",
    "C18": " A stall needs progress after an unneeded frame: a 1-byte connection WINDOW_UPDATE or, failing that, an empty SETTINGS frame. ~900 single-stream cases walk the Huffman-coded header block's length byte by byte across one and two full frames (16384, 32768).",
    "C20": " The tunnel_agent extension config also carries its context under differently cased keys (decoded case-insensitively by encoding/json) and further contexts nested in lists and sibling objects.",
}
for _k, _v in _ADD.items():
    if _k in META and _v.strip() not in META[_k]["text"]:
        META[_k]["text"] += _v

# ---- additions of the seventh wave (DESIGN.md §7.6) ----
_ADD7 = {
    "C01": " Job c01-xe2e: the five xprotocol codecs END TO END - 2000 (20000) batches per lane, two lanes per codec, of 1..8 generated well-formed requests / one-way requests written as one byte stream (whole / per frame / random cuts) to a running MOSN with a catch-all route; the raw-frame recording upstream (one batch in five a slow reader, so the proxy's read buffer is reused while frames are queued) must receive exactly the sent frames, byte-identical outside the request-id field (tars: field by field), answers in a permuted order with generated response frames, and the client must receive exactly one response per request id, byte-identical outside the id field.",
    "C02": " The wrap lab presets the counter at every point where a narrower view of it wraps or changes sign (2^31, 2^32, 3*2^31, 2^33; dubbo 2^63, 2^64).",
    "C03": " The engine also routes to clusters whose connects TIME OUT (a listening socket with a full accept queue: neither accepted nor refused, connect_timeout 150 ms), alone and in front of a live host.",
    "C04": " Regular expressions (path, header, variable matchers) are read as Go's regexp package documents a match (the value contains a match; anchoring is the pattern's business): unanchored and half-anchored patterns are generated next to the anchored ones.",
    "C06": " c06-wrr also runs 150 (1500) health episodes: hosts unhealthy when the set is published or flagged later WITHOUT a host-set update, then recovered; the bound is judged in every segment in which all hosts are healthy (counts and windows restart at the segment start); what happens while some host is unhealthy is counted, not judged.",
    "C07": " Job c07-h2: 300 (3000) HTTP/2 connection streams of 1..4 requests whose header blocks are split into 1..5 HEADERS/CONTINUATION fragments (also empty ones), padded, with priority, bodies in 1..3 padded DATA frames, go through the real HTTP/2 server stream connection whole, with EVERY single cut (<= 900 B), at and around every frame boundary, bytewise and with random multi-cuts: the requests handed to the stream layer must be the same and equal to the generator's.",
    "C08": " Job c08-xe2e: the same end-to-end containment for boltv2, dubbo, dubbo-thrift and tars listeners (raw-frame peers): 2 probe clients per codec exchange generated valid frames on their own connections while ~650 (4500) hostile inputs (corruption grid over valid requests of the listener's and of the other codecs, cold / after a valid exchange) reach the listeners and 'evil' upstreams answer with corrupted responses and close.",
    "C09": " A steered part delays the pool's close-event handler of a connection (hook points in the HTTP/1 and ping-pong pools) until the stream that was in flight on it has been destroyed, for every operation that ends a connection, and compares the pool books with the kernel after each operation; connects that time out (blackhole address) are among the operations.",
    "C10": " Job c10-tcp: tcp_proxy listeners onto clusters counting the `connections` resource - sessions ended by client FIN / RST / half-close, upstream FIN / RST after N bytes, refused at max_connections=3, dead address, no hosts, connects that time out (alone and in front of a live host); sign sampler; at every quiescent point resource and upstream connection_active equal the kernel's established upstream sockets; threshold: 3 held connections -> the 4th refused, admitted again after a release by client FIN, client RST, upstream FIN, upstream RST; bursts of 12 at the limit. The engine's mixed histories include routes into clusters whose connects time out.",
    "C12": " Live routers are compared with routers built from the dumped configuration for every router name that exists in either (a dumped router without a buildable route table must serve no route live); updates with an empty router configuration (no virtual hosts) are part of the histories.",
    "C13": " c13-e2e updates its TLS listeners at run time through the listener adapter (inspector flag flipped on both trust-matrix listeners, the selection listener's context set reordered with one context dropped, then back) and judges every family again against the updated policy.",
    "C14": " A completeness rule computed from the verdict vector alone requires every filter up to the first answering one to have been invoked (a skipped filter leaves no trace in the filter log); verdicts whose redo fails end the stream between a re-entry request and the resumed pass: re-match after the request was changed to match no route, re-choose after the only host of a dedicated cluster was marked unhealthy (restored after the reply).",
    "C15": " Job c15-e2e: a running MOSN (HTTP/1.1 and bolt) with the header_to_metadata stream filter, 6 upstream hosts with partial metadata, 12 subset clusters (4 selector sets x 3 fallback policies), routes with metadata_match {none, prod, dev, qa}; 4 concurrent clients per protocol send 150 (1500) requests each with PRNG-chosen dynamic metadata; the criteria of each request (route pairs overlaid with its own dynamic pairs) give the admissible upstream set by the reference model and the serving upstream is read from the upstream's own log.",
    "C16": " The steered part also enumerates every interleaving of two concurrent operations on the SAME condition (two health checkers of one address): the other conditions must be untouched and the written condition must end as a serial order allows.",
    "C17": " Which of the virtual-host and router-configuration levels carry header actions rotates per protocol over {both, router only, virtual host only, none} (all four in every run); one action route in four carries no header action of its own.",
}
for _k, _v in _ADD7.items():
    if _k in META and _v.strip() not in META[_k]["text"]:
        META[_k]["text"] += _v

# ---- additions of the eighth wave (DESIGN.md §7.7) ----
_ADD8 = {
    "C01": " In the codec lab every frame whose body was replaced is encoded a second time after the body buffer was re-attached (what a retry does): the second frame must carry the same content.",
    "C03": " Job c03-storm: per protocol 16 concurrent clients on retrying routes whose first attempts the upstream closes, resets, answers in half or stalls (960 / 6400 requests per protocol), with a 25 ms delay injected at the HTTP/1 pool's stream-destroy hook on every third call (the previous attempt's connection is still winding down while the retry sets up the next attempt); one terminal outcome per request, no request left active, and the worker process must survive (a Go fatal error / panic of the worker is a violation with the crash site in its signature, in every engine job).",
    "C04": " Half of the generated configurations are built twice from the SAME configuration object before the judged table is built (read back and re-applied configurations, one route object added to two virtual hosts).",
    "C05": " c05-membership also runs, per policy, histories on two clusters sharing five addresses: conditions set through one cluster's host objects, one cluster replaced by arbitrary subsets, the other re-pushed with fresh host objects; an address flagged and never cleared must not be returned by either cluster while it has an unflagged member.",
    "C12": " The histories include updates of the running proxy listener (fields that are applied live and fields that are not); after every step every dumped listener entry must describe the running listener field by field.",
    "C13": " The contexts' own certificates come from a separate PKI (root -> intermediate -> leaf, cert_chain = leaf + intermediate) unrelated to the configured ca_cert; an additional peer kind presents a certificate issued by that intermediate (must be refused under verify_client + require_client_cert and by a verifying cluster context).",
    "C15": " Job c15-wide: a 6-key x 2-value universe, 1200 (12000) configurations with 1..3 selectors of 1..6 keys (sizes >= 4 over-represented), ALL 4096 criteria (+ unknown-key variants) per configuration, both builders against the model and each other.",
    "C17": " Redirect routes with scheme changes and hosts carrying explicit ports (:80, :443, :8080) and requests whose Host carries such ports: an explicit default port of the ORIGINAL scheme is dropped when the scheme changes, any other port stays.",
}
for _k, _v in _ADD8.items():
    if _k in META and _v.strip() not in META[_k]["text"]:
        META[_k]["text"] += _v

# ---- additions of the ninth wave (DESIGN.md §7.8) ----
_ADD9 = {
    "C01": " Job c01-convert (component level): 4000 (40000) HTTP/1 messages with generated fields (repeated names on several lines, empty values, commas, mixed case) are parsed by the real HTTP/1 codec, wrapped in MOSN's header types and converted with protocol/http2.EncodeHeader - the conversion the HTTP/2 streams apply to every header map that is not an HTTP/2 one; every field must arrive with its values in order. Quick tier: 20000 frames per codec, 6000 relay batches.",
    "C02": " Half of the requests use routes with request/response header actions, so the codecs' rebuild path (not the raw relay) carries the request id across.",
    "C06": " c06-wrr also drives 60 (400) clusters of the cluster manager through histories of host updates (replace, append - also of addresses the cluster already has, with a new weight -, remove) and judges the balancer of the current snapshot against the weights of the CURRENT host descriptions after every step.",
    "C09": " Job c09-goaway: bolt (multiplexed pool with one connection slot) and the ping-pong xprotocol towards an upstream that announces go-away (after or BEFORE its reply) with 0..3 other requests in flight, keeps answering and never closes the connection itself: once drained, the connection that carried the go-away must have been closed by the proxy (upstream's own record of that connection + kernel socket table), a following request is served on a new connection and no orphan remains; for the ping-pong pool the books are compared with the kernel.",
    "C10": " The engine also pushes a cluster's own configuration again through the cluster manager adapter (with hosts / cluster only) while two requests, or the retry of a request, are in flight on it; conservation and the threshold tests follow.",
    "C11": " The quick tier also holds the HTTP/1.1 'rest of the body arrives 7 s after SIGHUP, inside the old process's drain window' case.",
    "C13": " The 'other CA' peer presents the very certificate that is the right one wherever its CA is the configured one (the configured CA alternates per case), so the same certificate is admitted and refused in arbitrary order within one process.",
    "C14": " bolt requests are repeated as ONE-WAY requests with the same verdict vector: a denied one-way request must not reach an upstream either (judged from the upstream log after the run; allowed one-way requests are the positive control). 'Allowed but not served' needs the same outcome on two further attempts.",
    "C15": " The key spellings of c15-model and c15-wide rotate with the batch: lower case, mixed case (byte order differs from dictionary order), punctuation.",
    "C16": " Job c16-lifecycle: the active-check condition across the life cycle of a check session - state {unhealthy, healthy} x thresholds (1..3)^2 x {address leaves the host set and returns as the same / a new host object, checker stopped and started} x every {ok,fail} sequence of length <= 4 (5): Health() at the gated point after the operation (no result delivered yet) and callbacks through phase B against the automaton.",
    "C17": " One header addition in three takes its value from a %variable% (two harness-registered variables recur at all levels, in request and response additions, with independent append flags).",
    "C18": " Job c18-preface: MOSN's HTTP/2 client connection dials a peer that sends its SETTINGS at once on accept (as the reference server does) 120 (600) times with the announcing goroutine delayed 0/1/5/25 ms at a hook point: the first 24 octets on the wire must be the client connection preface, followed by a SETTINGS frame.",
    "C19": " A type that has custom JSON methods next to tagged fields of its own is generated from its tags instead of stopping the check.",
}
for _k, _v in _ADD9.items():
    if _k in META and _v.strip() not in META[_k]["text"]:
        META[_k]["text"] += _v

# ---- additions of the tenth wave (DESIGN.md §7.9) ----
_ADD10 = {
    "C01": " The second lane of every codec in c01-xe2e is a protocol-DETECTING listener (codec chosen from the first bytes of the connection; one batch in four opens a fresh connection).",
    "C02": " Job c02-xe2e: the five-codec raw-frame lab reporting only correlation rules - a reply under an id nobody waits for, and a reply delivered under its own id that carries bytes of ANOTHER reply of the batch (permuted replies, one or several writes).",
    "C05": " After the picks under the first health pattern the hosts' health is changed WITHOUT a host-set update and the same balancers are asked again - with the subset wrapper the requests then carry criteria, on both subset builders, with the any-endpoint and the no-fallback policy (built under the first pattern).",
    "C06": " The update histories also push the same members with their weights rotated among them (same multiset, same total).",
    "C07": " Job c07-xe2e: the five xprotocol codecs through fixed and detecting listeners with cuts a few bytes before the end of the first frame, byte-wise heads and random cuts, a pause after every write, a fresh connection per batch on the detecting lanes.",
    "C08": " The corruption grid also takes field values from the frame's own geometry (total length and remaining length -8..+4).",
    "C09": " A further steered order makes a reply and the timeout's reset of the same stream overlap: the reply (250 ms) is parked between stream lookup and delivery until the 300 ms timeout's reset is inside the pool's destroy handler.",
    "C11": " Thorough tier: back-to-back 1.2 s requests on a connection that starts with the old process, and a request the upstream holds for 42 s (past the old process's >= 39 s connection wait).",
    "C14": " Job c14-update: a listener's stream-filter configuration is replaced at run time ([pass,deny] <-> [deny,pass], both deny everything) between requests and while the first factory of a chain under construction is parked: no request may reach an upstream.",
    "C15": " One alphabet carries the empty string as a metadata value (a host with key=\"\" is not a host without the key).",
    "C16": " c16-lifecycle also drives two clusters of the cluster manager holding the same four addresses: conditions set / cleared through either cluster's host objects across RemoveClusterHosts / AppendClusterHosts / re-pushes; every host object must show exactly the conditions of its address.",
    "C17": " A two-value pool recurs in additions of all levels, in the client's own headers and in the upstream's response headers (an appended value equal to the current one is still appended).",
    "C18": " The HPACK generator also emits sibling fields: same name+value octets as a field sent earlier (or a static-table entry), split at another point.",
}
for _k, _v in _ADD10.items():
    if _k in META and _v.strip() not in META[_k]["text"]:
        META[_k]["text"] += _v

# ---- additions of the eleventh wave (DESIGN.md §7.10) ----
_ADD11 = {
    "C03": " c03-storm injects a second delay: the goroutine that reports an upstream reset is descheduled for 3 ms between raising the reset flag and notifying the proxy goroutine (hook point), so that a reset noticed between two send phases is followed by a notification whose event has already been handled.",
    "C06": " In the health episodes the bound is also judged in segments WITH unhealthy hosts when none of them is heavier than any healthy host (the scheduler then never meets as many consecutive unhealthy entries as the set has hosts).",
    "C07": " boltv2 streams carry bolt v1 frames as well, down to the 20-byte minimum (shorter than the smallest boltv2 frame).",
    "C09": " c09-goaway also drives HTTP/1.1: a reply with 'Connection: close' from an upstream that keeps the connection open - the connection must be closed by the proxy and the next request must arrive on another one.",
}
for _k, _v in _ADD11.items():
    if _k in META and _v.strip() not in META[_k]["text"]:
        META[_k]["text"] += _v

# ---- additions of the twelfth wave (DESIGN.md §7.11) ----
_ADD12 = {
    "C01": " c01-e2e also sends extension methods (PATCH, PROPFIND, MKCOL, REPORT, PURGE) and a made-up method token on the fixed-protocol pairings.",
    "C03": " Thorough tier: requests carrying a timeout header (global / per-try) with the value 0 towards an upstream that never answers must end within 80 s (the 60 s default is the longest candidate).",
    "C08": " bolt / boltv2 header blocks are also written from the block's own grammar (-1 'null' lengths, empty and short strings, odd counts, dangling tails), so that two unusual fields meet in one block.",
    "C12": " Cluster updates carry circuit-breaker thresholds (none / zeros / small values) while, half of the time, a unit of every resource of the live cluster is held; the limits the live cluster enforces are compared with the stored configuration after every step.",
    "C13": " One upstream case in five (peers that must be refused) configures no ca_cert at all.",
    "C18": " Half of the flow cases write every identifier twice in their SETTINGS frames (a decoy value first; the last value stands).",
    "C20": " Use-flags next to a configured TLS block (cluster_manager_tls) are set at random; a quarter of the extend documents write their key names with JSON escapes.",
}
for _k, _v in _ADD12.items():
    if _k in META and _v.strip() not in META[_k]["text"]:
        META[_k]["text"] += _v

_ADD13 = {
    "C10": " A per-try timer is parked at its hook point and released while the next attempt is being set up in the HTTP/1 pool (counted, no stream sender yet); every attempt that was counted must be given back (found /repo 10a22a28f). A raw HTTP/2 client gives requests up between HEADERS and END_STREAM (RST_STREAM / connection close): the downstream gauges must return to zero (found /repo 253e0ed06).",
}
for _k, _v in _ADD13.items():
    if _k in META and _v.strip() not in META[_k]["text"]:
        META[_k]["text"] += _v
